#!/usr/bin/env python
"""Witness: shows that the patch in this directory changes observable behaviour w.r.t. the clean base commit.

Self-contained: exports the base commit of /repo into a temporary directory, applies patch.diff to a second
copy, runs the PROBE below against both trees (PYTHONPATH) and prints both outputs.
Exit status 0 iff the two outputs differ (= the behavioural difference is demonstrated)."""
import json
import os
import subprocess
import sys
import tempfile

HERE = os.path.dirname(os.path.abspath(__file__))
REPO = os.environ.get('PAGEXML_REPO', '/repo')
PYTHON = os.environ.get('PAGEXML_PYTHON', '/venv/bin/python')
BASE = json.load(open(os.path.join(HERE, 'meta.json')))['base_commit']

PROBE = r'''
import pagexml.model.physical_document_model as pdm

def box(x, y, w, h):
    return pdm.Coords([(x, y), (x + w, y), (x + w, y + h), (x, y + h)])

def attempt(label, func):
    try:
        print(f'{label:28}-> {func()}')
    except Exception as err:
        print(f'{label:28}-> {type(err).__name__}: {err}')

region_line = pdm.PageXMLTextLine(doc_id='l-in-region', coords=box(0, 0, 100, 20), text='two words')
region = pdm.PageXMLTextRegion(doc_id='r1', coords=box(0, 0, 100, 20), lines=[region_line])
column = pdm.PageXMLColumn(doc_id='c1', coords=box(0, 0, 100, 20), text_regions=[region])
page = pdm.PageXMLPage(doc_id='p1', coords=box(0, 0, 500, 500), columns=[column])
attempt('regular page: line ids', lambda: [line.id for line in page.get_lines()])
attempt('regular page: stats', lambda: page.stats)
# now attach a line to the page itself (add_child accepts it)
page.add_child(pdm.PageXMLTextLine(doc_id='l-on-page', coords=box(0, 100, 80, 20), text='stray'))
attempt('page with own line: line ids', lambda: [line.id for line in page.get_lines()])
attempt('page with own line: stats', lambda: page.stats)
attempt('page with own line: json', lambda: sorted(page.json))
'''


def export_tree(target):
    os.makedirs(target)
    archive = subprocess.run(['git', '-C', REPO, 'archive', BASE, 'pagexml'], check=True, capture_output=True).stdout
    subprocess.run(['tar', '-x', '-C', target], input=archive, check=True)


def run_probe(tree, workdir):
    env = dict(os.environ, PYTHONPATH=tree, PYTHONDONTWRITEBYTECODE='1')
    proc = subprocess.run([PYTHON, '-c', PROBE], env=env, cwd=workdir, capture_output=True, text=True)
    return proc.stdout + (('[stderr] ' + proc.stderr.strip().splitlines()[-1] + '\n') if proc.returncode else '')


def main():
    with tempfile.TemporaryDirectory() as tmp:
        clean, patched = os.path.join(tmp, 'clean'), os.path.join(tmp, 'patched')
        export_tree(clean)
        export_tree(patched)
        subprocess.run(['git', 'apply', os.path.join(HERE, 'patch.diff')], cwd=patched, check=True)
        os.makedirs(os.path.join(tmp, 'w1'))
        os.makedirs(os.path.join(tmp, 'w2'))
        out_clean = run_probe(clean, os.path.join(tmp, 'w1'))
        out_patched = run_probe(patched, os.path.join(tmp, 'w2'))
    print('--- clean base commit', BASE[:8])
    print(out_clean, end='')
    print('--- with patch.diff applied')
    print(out_patched, end='')
    if out_clean == out_patched:
        print('=== NO DIFFERENCE OBSERVED')
        return 1
    print('=== behaviour differs')
    return 0


if __name__ == '__main__':
    sys.exit(main())
