#!/usr/bin/env python
"""Witness: shows that the patch in this directory changes observable behaviour w.r.t. the clean base commit.

Self-contained: exports the base commit of /repo into a temporary directory, applies patch.diff to a second
copy, runs the PROBE below against both trees (PYTHONPATH) and prints both outputs.
Exit status 0 iff the two outputs differ (= the behavioural difference is demonstrated)."""
import json
import os
import subprocess
import sys
import tempfile

HERE = os.path.dirname(os.path.abspath(__file__))
REPO = os.environ.get('PAGEXML_REPO', '/repo')
PYTHON = os.environ.get('PAGEXML_PYTHON', '/venv/bin/python')
BASE = json.load(open(os.path.join(HERE, 'meta.json')))['base_commit']

PROBE = r'''
import json
import pagexml.model.physical_document_model as pdm
from pagexml.parser import parse_pagexml_from_json

def box(x, y, w, h):
    return pdm.Coords([(x, y), (x + w, y), (x + w, y + h), (x, y + h)])

def same(doc1, doc2):
    return json.dumps(doc1.json, sort_keys=True) == json.dumps(doc2.json, sort_keys=True)

def attempt(label, func):
    try:
        print(f'{label:40}-> {func()}')
    except Exception as err:
        print(f'{label:40}-> {type(err).__name__}: {err}')

line = pdm.PageXMLTextLine(doc_id='l1', coords=box(0, 0, 100, 20), baseline=pdm.Baseline([(0, 15), (100, 15)]),
                           text='café au lait', conf=0.5)
region = pdm.PageXMLTextRegion(doc_id='r1', coords=box(0, 0, 100, 20), lines=[line])
as_dict, as_text = region.json, json.dumps(region.json)
attempt('rebuild from dict   == original json', lambda: same(parse_pagexml_from_json(as_dict), region))
attempt('rebuild from str    == original json', lambda: same(parse_pagexml_from_json(as_text), region))
attempt('rebuild from bytes  == original json', lambda: same(parse_pagexml_from_json(as_text.encode('utf-8')), region))

cell = pdm.PageXMLTableCell(doc_id='c00', coords=box(0, 0, 50, 20), row=0, col=0,
                            lines=[pdm.PageXMLTextLine(doc_id='cl', coords=box(0, 0, 50, 20), text='cell text')])
row = pdm.PageXMLTableRow(doc_id='row0', coords=box(0, 0, 50, 20), cells=[cell])
table = pdm.PageXMLTableRegion(doc_id='t1', coords=box(0, 0, 50, 20), rows=[row])
def rebuilt_table():
    doc = parse_pagexml_from_json(table.json)
    return f'{type(doc).__name__} same json: {doc is not None and same(doc, table)}'
attempt('rebuild a table region on its own', rebuilt_table)
'''


def export_tree(target):
    os.makedirs(target)
    archive = subprocess.run(['git', '-C', REPO, 'archive', BASE, 'pagexml'], check=True, capture_output=True).stdout
    subprocess.run(['tar', '-x', '-C', target], input=archive, check=True)


def run_probe(tree, workdir):
    env = dict(os.environ, PYTHONPATH=tree, PYTHONDONTWRITEBYTECODE='1')
    proc = subprocess.run([PYTHON, '-c', PROBE], env=env, cwd=workdir, capture_output=True, text=True)
    return proc.stdout + (('[stderr] ' + proc.stderr.strip().splitlines()[-1] + '\n') if proc.returncode else '')


def main():
    with tempfile.TemporaryDirectory() as tmp:
        clean, patched = os.path.join(tmp, 'clean'), os.path.join(tmp, 'patched')
        export_tree(clean)
        export_tree(patched)
        subprocess.run(['git', 'apply', os.path.join(HERE, 'patch.diff')], cwd=patched, check=True)
        os.makedirs(os.path.join(tmp, 'w1'))
        os.makedirs(os.path.join(tmp, 'w2'))
        out_clean = run_probe(clean, os.path.join(tmp, 'w1'))
        out_patched = run_probe(patched, os.path.join(tmp, 'w2'))
    print('--- clean base commit', BASE[:8])
    print(out_clean, end='')
    print('--- with patch.diff applied')
    print(out_patched, end='')
    if out_clean == out_patched:
        print('=== NO DIFFERENCE OBSERVED')
        return 1
    print('=== behaviour differs')
    return 0


if __name__ == '__main__':
    sys.exit(main())
