#!/usr/bin/env python
"""Witness: shows that the patch in this directory changes observable behaviour w.r.t. the clean base commit.

Self-contained: exports the base commit of /repo into a temporary directory, applies patch.diff to a second
copy, runs the PROBE below against both trees (PYTHONPATH) and prints both outputs.
Exit status 0 iff the two outputs differ (= the behavioural difference is demonstrated)."""
import json
import os
import subprocess
import sys
import tempfile

HERE = os.path.dirname(os.path.abspath(__file__))
REPO = os.environ.get('PAGEXML_REPO', '/repo')
PYTHON = os.environ.get('PAGEXML_PYTHON', '/venv/bin/python')
BASE = json.load(open(os.path.join(HERE, 'meta.json')))['base_commit']

PROBE = r'''
import gzip
import pagexml.model.physical_document_model as pdm
from pagexml.helper.text_helper import LineReader, make_line_format_file, read_pagexml_docs_from_line_file

def box(x, y, w, h):
    return pdm.Coords([(x, y), (x + w, y), (x + w, y + h), (x, y + h)])

def make_scan(texts):
    lines = [pdm.PageXMLTextLine(doc_id=f'l{i}', coords=box(0, 30 * i, 100, 20), text=text)
             for i, text in enumerate(texts)]
    region = pdm.PageXMLTextRegion(doc_id='r1', coords=box(0, 0, 100, 30 * len(texts)), lines=lines)
    return pdm.PageXMLScan(doc_id='scan1', coords=box(0, 0, 500, 500), text_regions=[region])

def round_trip(label, texts):
    scan = make_scan(texts)
    make_line_format_file([scan], 'lines.tsv.gz', add_bounding_box=True)
    print(label)
    print('   raw file records:', [row for row in gzip.open('lines.tsv.gz', 'rt').read().split('\n')[1:] if row])
    try:
        records = [(r['line_id'], r['text'], r['line_box']) for r in LineReader(pagexml_line_files='lines.tsv.gz', add_bounding_box=True)]
        print('   read back       :', records)
        docs = list(read_pagexml_docs_from_line_file('lines.tsv.gz'))
        print('   rebuilt         :', [(d.id, [(l.id, l.text) for l in d.get_lines()]) for d in docs])
    except Exception as err:
        print('   reading back    ->', type(err).__name__, err)

round_trip('texts inside the quantifier (no tab / CR / LF):', ['plain text', '', ' leading and trailing ', None, 'café'])
round_trip('texts with separator characters (outside the quantifier):', ['tab\there', 'line\nbreak'])
'''


def export_tree(target):
    os.makedirs(target)
    archive = subprocess.run(['git', '-C', REPO, 'archive', BASE, 'pagexml'], check=True, capture_output=True).stdout
    subprocess.run(['tar', '-x', '-C', target], input=archive, check=True)


def run_probe(tree, workdir):
    env = dict(os.environ, PYTHONPATH=tree, PYTHONDONTWRITEBYTECODE='1')
    proc = subprocess.run([PYTHON, '-c', PROBE], env=env, cwd=workdir, capture_output=True, text=True)
    return proc.stdout + (('[stderr] ' + proc.stderr.strip().splitlines()[-1] + '\n') if proc.returncode else '')


def main():
    with tempfile.TemporaryDirectory() as tmp:
        clean, patched = os.path.join(tmp, 'clean'), os.path.join(tmp, 'patched')
        export_tree(clean)
        export_tree(patched)
        subprocess.run(['git', 'apply', os.path.join(HERE, 'patch.diff')], cwd=patched, check=True)
        os.makedirs(os.path.join(tmp, 'w1'))
        os.makedirs(os.path.join(tmp, 'w2'))
        out_clean = run_probe(clean, os.path.join(tmp, 'w1'))
        out_patched = run_probe(patched, os.path.join(tmp, 'w2'))
    print('--- clean base commit', BASE[:8])
    print(out_clean, end='')
    print('--- with patch.diff applied')
    print(out_patched, end='')
    if out_clean == out_patched:
        print('=== NO DIFFERENCE OBSERVED')
        return 1
    print('=== behaviour differs')
    return 0


if __name__ == '__main__':
    sys.exit(main())
