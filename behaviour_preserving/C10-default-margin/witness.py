#!/usr/bin/env python
"""Witness: shows that the patch in this directory changes observable behaviour w.r.t. the clean base commit.

Self-contained: exports the base commit of /repo into a temporary directory, applies patch.diff to a second
copy, runs the PROBE below against both trees (PYTHONPATH) and prints both outputs.
Exit status 0 iff the two outputs differ (= the behavioural difference is demonstrated)."""
import json
import os
import subprocess
import sys
import tempfile

HERE = os.path.dirname(os.path.abspath(__file__))
REPO = os.environ.get('PAGEXML_REPO', '/repo')
PYTHON = os.environ.get('PAGEXML_PYTHON', '/venv/bin/python')
BASE = json.load(open(os.path.join(HERE, 'meta.json')))['base_commit']

PROBE = r'''
import pagexml.model.physical_document_model as pdm

def region(rid, x, y, w, h):
    return pdm.PageXMLTextRegion(doc_id=rid, coords=pdm.Coords([(x, y), (x + w, y), (x + w, y + h), (x, y + h)]))

upper = region('upper', 0, 0, 100, 100)
lower = region('lower', 0, 85, 100, 100)      # starts 15 px above the bottom edge of 'upper'
left = region('left', 0, 0, 100, 100)
right = region('right', 85, 0, 100, 100)      # the transposed pair
print('is_below(lower, upper)               :', pdm.is_below(lower, upper))
print('is_next_to(right, left)              :', pdm.is_next_to(right, left))
for margin in (0, 10, 15, 16, 20):
    print(f'margin={margin:2}: is_below={pdm.is_below(lower, upper, margin=margin)} '
          f'is_next_to(transposed)={pdm.is_next_to(right, left, margin=margin)} '
          f'is_below(translated)={pdm.is_below(region("a", 50, 1085, 100, 100), region("b", 50, 1000, 100, 100), margin=margin)}')
'''


def export_tree(target):
    os.makedirs(target)
    archive = subprocess.run(['git', '-C', REPO, 'archive', BASE, 'pagexml'], check=True, capture_output=True).stdout
    subprocess.run(['tar', '-x', '-C', target], input=archive, check=True)


def run_probe(tree, workdir):
    env = dict(os.environ, PYTHONPATH=tree, PYTHONDONTWRITEBYTECODE='1')
    proc = subprocess.run([PYTHON, '-c', PROBE], env=env, cwd=workdir, capture_output=True, text=True)
    return proc.stdout + (('[stderr] ' + proc.stderr.strip().splitlines()[-1] + '\n') if proc.returncode else '')


def main():
    with tempfile.TemporaryDirectory() as tmp:
        clean, patched = os.path.join(tmp, 'clean'), os.path.join(tmp, 'patched')
        export_tree(clean)
        export_tree(patched)
        subprocess.run(['git', 'apply', os.path.join(HERE, 'patch.diff')], cwd=patched, check=True)
        os.makedirs(os.path.join(tmp, 'w1'))
        os.makedirs(os.path.join(tmp, 'w2'))
        out_clean = run_probe(clean, os.path.join(tmp, 'w1'))
        out_patched = run_probe(patched, os.path.join(tmp, 'w2'))
    print('--- clean base commit', BASE[:8])
    print(out_clean, end='')
    print('--- with patch.diff applied')
    print(out_patched, end='')
    if out_clean == out_patched:
        print('=== NO DIFFERENCE OBSERVED')
        return 1
    print('=== behaviour differs')
    return 0


if __name__ == '__main__':
    sys.exit(main())
