#!/usr/bin/env python3
"""Witness: C11 - custom tags are also recognised with no space or several whitespace characters between tag name and brace

Builds two source trees from the base commit of /repo (clean, and clean + patch.diff of this
directory), runs the same snippet against both and prints the two outputs. Exit status 0 means
the observable behaviour differs (and both runs completed)."""
import os
import subprocess
import sys
import tempfile

HERE = os.path.dirname(os.path.abspath(__file__))
BASE_COMMIT = 'd748213a6115712fa1a9efd59f7055db42a2823a'
REPO = os.environ.get('PAGEXML_REPO', '/repo')
PYTHON = os.environ.get('PAGEXML_PYTHON', '/venv/bin/python' if os.path.exists('/venv/bin/python') else sys.executable)

SNIPPET = r'''
from pagexml.parser import parse_custom_attributes, parse_custom_metadata
from pagexml.model.xml import make_custom_string
inside = 'readingOrder {index:3;} structure { type : paragraph ; } textStyle {offset:0; length:4;fontSize:12.5} person {} person {offset:2;length:3}'
parsed = parse_custom_attributes(inside)
print('one space (inside C11):', parsed)
print('  stable:', parse_custom_attributes(make_custom_string(parsed)) == parsed,
      sorted(parse_custom_metadata({'@custom': inside}, custom_tags=['person']).keys()))
# outside C11: no space, or more than one space, between the tag name and the brace
outside = 'readingOrder{index:3;} structure  {type:heading;} textStyle\t{offset:1; length:2;}'
print('other spacing (outside C11):', parse_custom_attributes(outside))
meta = parse_custom_metadata({'@custom': outside})
print('  metadata fields:', {k: v for k, v in meta.items() if k != 'custom_attributes'})
'''


def make_tree(dest, patch=None):
    os.makedirs(dest)
    archive = subprocess.run(['git', '-C', REPO, 'archive', BASE_COMMIT], check=True,
                             stdout=subprocess.PIPE).stdout
    subprocess.run(['tar', '-x', '-C', dest], input=archive, check=True)
    if patch is not None:
        subprocess.run(['git', 'apply', patch], cwd=dest, check=True)


def run(tree):
    env = dict(os.environ, PYTHONPATH=tree, PYTHONDONTWRITEBYTECODE='1')
    proc = subprocess.run([PYTHON, '-c', SNIPPET], cwd=tree, env=env, capture_output=True, text=True)
    if proc.returncode != 0:
        print(proc.stdout)
        print(proc.stderr, file=sys.stderr)
        raise SystemExit(f'snippet failed in {tree}')
    return proc.stdout


def main():
    with tempfile.TemporaryDirectory() as tmp:
        clean, patched = os.path.join(tmp, 'clean'), os.path.join(tmp, 'patched')
        make_tree(clean)
        make_tree(patched, patch=os.path.join(HERE, 'patch.diff'))
        out_clean, out_patched = run(clean), run(patched)
    print('=== clean HEAD ===')
    print(out_clean.rstrip())
    print('=== with patch ===')
    print(out_patched.rstrip())
    if out_clean == out_patched:
        print('NO DIFFERENCE OBSERVED')
        return 1
    print('=== behaviour differs ===')
    return 0


if __name__ == '__main__':
    sys.exit(main())
