#!/usr/bin/env python3
"""Witness: C13 - with ignore_errors, parse_pagexml_files also skips files that cannot be opened (missing file, directory)

Builds two source trees from the base commit of /repo (clean, and clean + patch.diff of this
directory), runs the same snippet against both and prints the two outputs. Exit status 0 means
the observable behaviour differs (and both runs completed)."""
import os
import subprocess
import sys
import tempfile

HERE = os.path.dirname(os.path.abspath(__file__))
BASE_COMMIT = 'd748213a6115712fa1a9efd59f7055db42a2823a'
REPO = os.environ.get('PAGEXML_REPO', '/repo')
PYTHON = os.environ.get('PAGEXML_PYTHON', '/venv/bin/python' if os.path.exists('/venv/bin/python') else sys.executable)

SNIPPET = r'''
import os, tempfile
from pagexml.parser import parse_pagexml_files
def xml(name):
    return ('<?xml version="1.0" encoding="UTF-8"?><PcGts xmlns="http://schema.primaresearch.org/PAGE/gts/pagecontent/2013-07-15">'
            f'<Metadata><Creator>w</Creator></Metadata><Page imageFilename="{name}.jpg" imageWidth="1000" imageHeight="800">'
            '<TextRegion id="r"><Coords points="0,0 9,0 9,9 0,9"/></TextRegion></Page></PcGts>')
tmp = tempfile.mkdtemp()
files = {'good1.xml': xml('good1'), 'empty.xml': '', 'truncated.xml': xml('t')[:150], 'notpage.xml': '<a/>',
         'nosize.xml': xml('n').replace(' imageWidth="1000"', ''), 'badpoints.xml': xml('b').replace('9,9', '9,x'), 'good2.xml': xml('good2')}
for name, content in files.items():
    open(os.path.join(tmp, name), 'w').write(content)
os.mkdir(os.path.join(tmp, 'folder.xml'))
def run(names, ignore_errors):
    got = []
    try:
        for scan in parse_pagexml_files([os.path.join(tmp, n) for n in names], ignore_errors=ignore_errors):
            got.append(scan.id)
        return got
    except Exception as err:
        return got + [f'raised {type(err).__name__}']
import contextlib, io
with contextlib.redirect_stdout(io.StringIO()):
    listed = run(list(files), True), run(list(files), False)
    # outside C13: members that cannot be opened at all (a name that does not exist, a directory)
    unopenable = run(['good1.xml', 'vanished.xml', 'folder.xml', 'good2.xml'], True), run(['good1.xml', 'vanished.xml', 'good2.xml'], False)
print('listed fault kinds, ignore_errors=True :', listed[0])
print('listed fault kinds, ignore_errors=False:', listed[1])
print('unopenable files,   ignore_errors=True :', unopenable[0])
print('unopenable files,   ignore_errors=False:', unopenable[1])
'''


def make_tree(dest, patch=None):
    os.makedirs(dest)
    archive = subprocess.run(['git', '-C', REPO, 'archive', BASE_COMMIT], check=True,
                             stdout=subprocess.PIPE).stdout
    subprocess.run(['tar', '-x', '-C', dest], input=archive, check=True)
    if patch is not None:
        subprocess.run(['git', 'apply', patch], cwd=dest, check=True)


def run(tree):
    env = dict(os.environ, PYTHONPATH=tree, PYTHONDONTWRITEBYTECODE='1')
    proc = subprocess.run([PYTHON, '-c', SNIPPET], cwd=tree, env=env, capture_output=True, text=True)
    if proc.returncode != 0:
        print(proc.stdout)
        print(proc.stderr, file=sys.stderr)
        raise SystemExit(f'snippet failed in {tree}')
    return proc.stdout


def main():
    with tempfile.TemporaryDirectory() as tmp:
        clean, patched = os.path.join(tmp, 'clean'), os.path.join(tmp, 'patched')
        make_tree(clean)
        make_tree(patched, patch=os.path.join(HERE, 'patch.diff'))
        out_clean, out_patched = run(clean), run(patched)
    print('=== clean HEAD ===')
    print(out_clean.rstrip())
    print('=== with patch ===')
    print(out_patched.rstrip())
    if out_clean == out_patched:
        print('NO DIFFERENCE OBSERVED')
        return 1
    print('=== behaviour differs ===')
    return 0


if __name__ == '__main__':
    sys.exit(main())
