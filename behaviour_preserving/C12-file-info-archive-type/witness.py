#!/usr/bin/env python
"""Witness: shows that the patch in this directory changes observable behaviour w.r.t. the clean base commit.

Self-contained: exports the base commit of /repo into a temporary directory, applies patch.diff to a second
copy, runs the PROBE below against both trees (PYTHONPATH) and prints both outputs.
Exit status 0 iff the two outputs differ (= the behavioural difference is demonstrated)."""
import json
import os
import subprocess
import sys
import tempfile

HERE = os.path.dirname(os.path.abspath(__file__))
REPO = os.environ.get('PAGEXML_REPO', '/repo')
PYTHON = os.environ.get('PAGEXML_PYTHON', '/venv/bin/python')
BASE = json.load(open(os.path.join(HERE, 'meta.json')))['base_commit']

PROBE = r'''
import io, json, os, tarfile, zipfile
from pagexml.helper.file_helper import read_page_archive_file
from pagexml.parser import parse_pagexml_files_from_archive, parse_pagexml_file
NS = 'http://schema.primaresearch.org/PAGE/gts/pagecontent/2013-07-15'
xml = (f'<?xml version="1.0" encoding="UTF-8"?><PcGts xmlns="{NS}"><Metadata/>'
       f'<Page imageFilename="s.jpg" imageWidth="500" imageHeight="500">'
       f'<TextRegion id="r1"><Coords points="0,0 10,0 10,10"/></TextRegion></Page></PcGts>').encode()
inner = io.BytesIO()
with tarfile.open(fileobj=inner, mode='w') as th:
    info = tarfile.TarInfo('deep/inner.xml'); info.size = len(xml); th.addfile(info, io.BytesIO(xml))
with zipfile.ZipFile('outer.zip', 'w') as zh:
    zh.writestr('dir/page.xml', xml)
    zh.writestr('dir/notes.txt', b'')
    zh.writestr('nested/inner.tar', inner.getvalue())
for names_only in (False, True):
    print('names only:', names_only)
    for file_info, data in read_page_archive_file('outer.zip', filenames_only=names_only):
        print('   ', file_info, None if data is None else len(data))
direct = parse_pagexml_file('page.xml', pagexml_data=xml)
for scan in parse_pagexml_files_from_archive('outer.zip'):
    same = {k: v for k, v in scan.json['metadata'].items() if k not in ('filename', 'pagefile_info')} == \
           {k: v for k, v in direct.json['metadata'].items() if k not in ('filename', 'pagefile_info')}
    print('scan', scan.metadata['filename'], 'same as direct parse apart from file name / archive info:', same)
'''


def export_tree(target):
    os.makedirs(target)
    archive = subprocess.run(['git', '-C', REPO, 'archive', BASE, 'pagexml'], check=True, capture_output=True).stdout
    subprocess.run(['tar', '-x', '-C', target], input=archive, check=True)


def run_probe(tree, workdir):
    env = dict(os.environ, PYTHONPATH=tree, PYTHONDONTWRITEBYTECODE='1')
    proc = subprocess.run([PYTHON, '-c', PROBE], env=env, cwd=workdir, capture_output=True, text=True)
    return proc.stdout + (('[stderr] ' + proc.stderr.strip().splitlines()[-1] + '\n') if proc.returncode else '')


def main():
    with tempfile.TemporaryDirectory() as tmp:
        clean, patched = os.path.join(tmp, 'clean'), os.path.join(tmp, 'patched')
        export_tree(clean)
        export_tree(patched)
        subprocess.run(['git', 'apply', os.path.join(HERE, 'patch.diff')], cwd=patched, check=True)
        os.makedirs(os.path.join(tmp, 'w1'))
        os.makedirs(os.path.join(tmp, 'w2'))
        out_clean = run_probe(clean, os.path.join(tmp, 'w1'))
        out_patched = run_probe(patched, os.path.join(tmp, 'w2'))
    print('--- clean base commit', BASE[:8])
    print(out_clean, end='')
    print('--- with patch.diff applied')
    print(out_patched, end='')
    if out_clean == out_patched:
        print('=== NO DIFFERENCE OBSERVED')
        return 1
    print('=== behaviour differs')
    return 0


if __name__ == '__main__':
    sys.exit(main())
