#!/usr/bin/env python
"""Witness: shows that the patch in this directory changes observable behaviour w.r.t. the clean base commit.

Self-contained: exports the base commit of /repo into a temporary directory, applies patch.diff to a second
copy, runs the PROBE below against both trees (PYTHONPATH) and prints both outputs.
Exit status 0 iff the two outputs differ (= the behavioural difference is demonstrated)."""
import json
import os
import subprocess
import sys
import tempfile

HERE = os.path.dirname(os.path.abspath(__file__))
REPO = os.environ.get('PAGEXML_REPO', '/repo')
PYTHON = os.environ.get('PAGEXML_PYTHON', '/venv/bin/python')
BASE = json.load(open(os.path.join(HERE, 'meta.json')))['base_commit']

PROBE = r'''
import pagexml.model.physical_document_model as pdm
from pagexml.analysis.layout_stats import categorise_line_width, get_line_width_stats, get_boundary_width_ranges

def mk(width):
    return pdm.PageXMLTextLine(doc_id=f'w{width}', coords=pdm.Coords([(0, 0), (width, 0), (width, 30), (0, 30)]),
                               baseline=pdm.Baseline([(0, 25), (width, 25)]), text='x')

boundary_points = [300, 600, 900]
ranges = get_boundary_width_ranges(boundary_points)
print('ranges:', ranges)
lines = [mk(width) for width in (0, 150, 299, 300, 301, 600, 899, 900, 901, 2000)]
for line in lines:
    category = categorise_line_width(line, boundary_points)
    print(f'width {line.coords.w:5} -> {category:8} (one of the ranges: {category in ranges})')
stats = get_line_width_stats(lines, boundary_points)
print('stats:', dict(stats), '| bins sum to number of lines:', sum(stats.values()) == len(lines))
'''


def export_tree(target):
    os.makedirs(target)
    archive = subprocess.run(['git', '-C', REPO, 'archive', BASE, 'pagexml'], check=True, capture_output=True).stdout
    subprocess.run(['tar', '-x', '-C', target], input=archive, check=True)


def run_probe(tree, workdir):
    env = dict(os.environ, PYTHONPATH=tree, PYTHONDONTWRITEBYTECODE='1')
    proc = subprocess.run([PYTHON, '-c', PROBE], env=env, cwd=workdir, capture_output=True, text=True)
    return proc.stdout + (('[stderr] ' + proc.stderr.strip().splitlines()[-1] + '\n') if proc.returncode else '')


def main():
    with tempfile.TemporaryDirectory() as tmp:
        clean, patched = os.path.join(tmp, 'clean'), os.path.join(tmp, 'patched')
        export_tree(clean)
        export_tree(patched)
        subprocess.run(['git', 'apply', os.path.join(HERE, 'patch.diff')], cwd=patched, check=True)
        os.makedirs(os.path.join(tmp, 'w1'))
        os.makedirs(os.path.join(tmp, 'w2'))
        out_clean = run_probe(clean, os.path.join(tmp, 'w1'))
        out_patched = run_probe(patched, os.path.join(tmp, 'w2'))
    print('--- clean base commit', BASE[:8])
    print(out_clean, end='')
    print('--- with patch.diff applied')
    print(out_patched, end='')
    if out_clean == out_patched:
        print('=== NO DIFFERENCE OBSERVED')
        return 1
    print('=== behaviour differs')
    return 0


if __name__ == '__main__':
    sys.exit(main())
