#!/usr/bin/env python
"""Witness: shows that the patch in this directory changes observable behaviour w.r.t. the clean base commit.

Self-contained: exports the base commit of /repo into a temporary directory, applies patch.diff to a second
copy, runs the PROBE below against both trees (PYTHONPATH) and prints both outputs.
Exit status 0 iff the two outputs differ (= the behavioural difference is demonstrated)."""
import json
import os
import subprocess
import sys
import tempfile

HERE = os.path.dirname(os.path.abspath(__file__))
REPO = os.environ.get('PAGEXML_REPO', '/repo')
PYTHON = os.environ.get('PAGEXML_PYTHON', '/venv/bin/python')
BASE = json.load(open(os.path.join(HERE, 'meta.json')))['base_commit']

PROBE = r'''
import pagexml.model.physical_document_model as pdm
from pagexml.column_parser import split_lines_on_column_gaps

def mk(line_id, x, y, w, h=30):
    return pdm.PageXMLTextLine(doc_id=line_id, coords=pdm.Coords([(x, y), (x + w, y), (x + w, y + h), (x, y + h)]),
                               baseline=pdm.Baseline([(x, y + h - 5), (x + w, y + h - 5)]), text=line_id)

def run(dx, dy):
    lines = [mk('narrow-1', 10 + dx, 0 + dy, 12), mk('narrow-2', 10 + dx, 50 + dy, 15),       # narrower than 20 px
             mk('mid-1', 200 + dx, 0 + dy, 300), mk('mid-2', 210 + dx, 50 + dy, 280),
             mk('right-1', 700 + dx, 0 + dy, 300), mk('right-2', 700 + dx, 50 + dy, 310)]
    region = pdm.PageXMLTextRegion(doc_id='region-1', lines=lines,
                                   coords=pdm.Coords([(dx, dy), (1100 + dx, dy), (1100 + dx, 100 + dy), (dx, 100 + dy)]))
    return split_lines_on_column_gaps(region, gap_threshold=50)

for dx, dy in [(0, 0), (1000, 400)]:
    columns = run(dx, dy)
    print(f'translation ({dx},{dy}):')
    for column in columns:
        print('   ', column.id, [line.id for line in column.get_lines()])
    all_ids = sorted(line.id for column in columns for line in column.get_lines())
    print('    every line exactly once:', all_ids == sorted(['narrow-1', 'narrow-2', 'mid-1', 'mid-2', 'right-1', 'right-2']))
'''


def export_tree(target):
    os.makedirs(target)
    archive = subprocess.run(['git', '-C', REPO, 'archive', BASE, 'pagexml'], check=True, capture_output=True).stdout
    subprocess.run(['tar', '-x', '-C', target], input=archive, check=True)


def run_probe(tree, workdir):
    env = dict(os.environ, PYTHONPATH=tree, PYTHONDONTWRITEBYTECODE='1')
    proc = subprocess.run([PYTHON, '-c', PROBE], env=env, cwd=workdir, capture_output=True, text=True)
    return proc.stdout + (('[stderr] ' + proc.stderr.strip().splitlines()[-1] + '\n') if proc.returncode else '')


def main():
    with tempfile.TemporaryDirectory() as tmp:
        clean, patched = os.path.join(tmp, 'clean'), os.path.join(tmp, 'patched')
        export_tree(clean)
        export_tree(patched)
        subprocess.run(['git', 'apply', os.path.join(HERE, 'patch.diff')], cwd=patched, check=True)
        os.makedirs(os.path.join(tmp, 'w1'))
        os.makedirs(os.path.join(tmp, 'w2'))
        out_clean = run_probe(clean, os.path.join(tmp, 'w1'))
        out_patched = run_probe(patched, os.path.join(tmp, 'w2'))
    print('--- clean base commit', BASE[:8])
    print(out_clean, end='')
    print('--- with patch.diff applied')
    print(out_patched, end='')
    if out_clean == out_patched:
        print('=== NO DIFFERENCE OBSERVED')
        return 1
    print('=== behaviour differs')
    return 0


if __name__ == '__main__':
    sys.exit(main())
