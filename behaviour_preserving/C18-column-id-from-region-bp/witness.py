#!/usr/bin/env python3
"""Witness: C18 - the ids of split-off columns are derived from the id of the region that was split (its parent's only if the region has no id)

Builds two source trees from the base commit of /repo (clean, and clean + patch.diff of this
directory), runs the same snippet against both and prints the two outputs. Exit status 0 means
the observable behaviour differs (and both runs completed)."""
import os
import subprocess
import sys
import tempfile

HERE = os.path.dirname(os.path.abspath(__file__))
BASE_COMMIT = 'd748213a6115712fa1a9efd59f7055db42a2823a'
REPO = os.environ.get('PAGEXML_REPO', '/repo')
PYTHON = os.environ.get('PAGEXML_PYTHON', '/venv/bin/python' if os.path.exists('/venv/bin/python') else sys.executable)

SNIPPET = r'''
import pagexml.model.physical_document_model as pdm
from pagexml.column_parser import split_lines_on_column_gaps
def line(lid, x, y, w=300):
    return pdm.PageXMLTextLine(doc_id=lid, coords=pdm.Coords([(x, y), (x + w, y), (x + w, y + 40), (x, y + 40)]),
                               baseline=pdm.Baseline([(x, y + 35), (x + w, y + 35)]), text=lid)
def make(with_parent):
    lines = [line(f'c{c}r{r}', 100 + c * 500, 100 + r * 50) for r in range(3) for c in range(2)] + [line('narrow', 1200, 100, w=10)]
    region = pdm.PageXMLTextRegion(doc_id='region-1', coords=pdm.Coords([(100, 100), (1300, 100), (1300, 300), (100, 300)]), lines=lines)
    if with_parent:
        pdm.PageXMLScan(doc_id='scan-1', coords=pdm.Coords([(0, 0), (2000, 0), (2000, 1000), (0, 1000)]), text_regions=[region])
    return region
for with_parent in (True, False):
    region = make(with_parent)
    columns = split_lines_on_column_gaps(region, gap_threshold=50)
    print('region', 'below scan-1' if with_parent else 'without parent')
    for col in columns:
        print('   ', col.id, sorted(l.id for l in col.get_lines()), 'encloses lines:',
              all(col.coords.left <= l.coords.left and l.coords.right <= col.coords.right for l in col.get_lines()),
              'id from region or parent:', col.id.startswith('region-1') or col.id.startswith('scan-1'))
    assert sorted(l.id for col in columns for l in col.get_lines()) == sorted(l.id for l in region.get_lines())
'''


def make_tree(dest, patch=None):
    os.makedirs(dest)
    archive = subprocess.run(['git', '-C', REPO, 'archive', BASE_COMMIT], check=True,
                             stdout=subprocess.PIPE).stdout
    subprocess.run(['tar', '-x', '-C', dest], input=archive, check=True)
    if patch is not None:
        subprocess.run(['git', 'apply', patch], cwd=dest, check=True)


def run(tree):
    env = dict(os.environ, PYTHONPATH=tree, PYTHONDONTWRITEBYTECODE='1')
    proc = subprocess.run([PYTHON, '-c', SNIPPET], cwd=tree, env=env, capture_output=True, text=True)
    if proc.returncode != 0:
        print(proc.stdout)
        print(proc.stderr, file=sys.stderr)
        raise SystemExit(f'snippet failed in {tree}')
    return proc.stdout


def main():
    with tempfile.TemporaryDirectory() as tmp:
        clean, patched = os.path.join(tmp, 'clean'), os.path.join(tmp, 'patched')
        make_tree(clean)
        make_tree(patched, patch=os.path.join(HERE, 'patch.diff'))
        out_clean, out_patched = run(clean), run(patched)
    print('=== clean HEAD ===')
    print(out_clean.rstrip())
    print('=== with patch ===')
    print(out_patched.rstrip())
    if out_clean == out_patched:
        print('NO DIFFERENCE OBSERVED')
        return 1
    print('=== behaviour differs ===')
    return 0


if __name__ == '__main__':
    sys.exit(main())
