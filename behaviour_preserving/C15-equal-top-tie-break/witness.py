#!/usr/bin/env python
"""Witness: shows that the patch in this directory changes observable behaviour w.r.t. the clean base commit.

Self-contained: exports the base commit of /repo into a temporary directory, applies patch.diff to a second
copy, runs the PROBE below against both trees (PYTHONPATH) and prints both outputs.
Exit status 0 iff the two outputs differ (= the behavioural difference is demonstrated)."""
import json
import os
import subprocess
import sys
import tempfile

HERE = os.path.dirname(os.path.abspath(__file__))
REPO = os.environ.get('PAGEXML_REPO', '/repo')
PYTHON = os.environ.get('PAGEXML_PYTHON', '/venv/bin/python')
BASE = json.load(open(os.path.join(HERE, 'meta.json')))['base_commit']

PROBE = r'''
import pagexml.model.physical_document_model as pdm
from pagexml.helper.pagexml_helper import horizontal_group_lines, sort_lines_in_reading_direction

def mk(line_id, x, y, w, h):
    return pdm.PageXMLTextLine(doc_id=line_id, coords=pdm.Coords([(x, y), (x + w, y), (x + w, y + h), (x, y + h)]),
                               baseline=pdm.Baseline([(x, y + h - 5), (x + w, y + h - 5)]), text=f'text of {line_id}')

def show(label, lines):
    groups = horizontal_group_lines(lines)
    print(f'{label:44} groups={[[l.id for l in g] for g in groups]} '
          f'ltr={[l.id for l in sort_lines_in_reading_direction(lines, "ltr")]} '
          f'rtl={[l.id for l in sort_lines_in_reading_direction(lines, "rtl")]}')

# two overlapping lines that start at exactly the same height, given right one first
messy = [mk('right', 120, 0, 150, 20), mk('left', 0, 0, 150, 30)]
show('messy pair, equal top, input right,left', messy)
show('messy pair, equal top, input left,right', messy[::-1])
show('messy pair, touching', [mk('b', 200, 10, 40, 30), mk('a', 120, 10, 80, 20)])
# a clean 2 x 2 grid (rows aligned, clear column gap), shuffled: row-major either way
grid = [mk('r1c1', 500, 100, 250, 40), mk('r0c1', 500, 20, 250, 40), mk('r1c0', 100, 100, 250, 40), mk('r0c0', 100, 20, 250, 40)]
show('clean grid, shuffled input', grid)
'''


def export_tree(target):
    os.makedirs(target)
    archive = subprocess.run(['git', '-C', REPO, 'archive', BASE, 'pagexml'], check=True, capture_output=True).stdout
    subprocess.run(['tar', '-x', '-C', target], input=archive, check=True)


def run_probe(tree, workdir):
    env = dict(os.environ, PYTHONPATH=tree, PYTHONDONTWRITEBYTECODE='1')
    proc = subprocess.run([PYTHON, '-c', PROBE], env=env, cwd=workdir, capture_output=True, text=True)
    return proc.stdout + (('[stderr] ' + proc.stderr.strip().splitlines()[-1] + '\n') if proc.returncode else '')


def main():
    with tempfile.TemporaryDirectory() as tmp:
        clean, patched = os.path.join(tmp, 'clean'), os.path.join(tmp, 'patched')
        export_tree(clean)
        export_tree(patched)
        subprocess.run(['git', 'apply', os.path.join(HERE, 'patch.diff')], cwd=patched, check=True)
        os.makedirs(os.path.join(tmp, 'w1'))
        os.makedirs(os.path.join(tmp, 'w2'))
        out_clean = run_probe(clean, os.path.join(tmp, 'w1'))
        out_patched = run_probe(patched, os.path.join(tmp, 'w2'))
    print('--- clean base commit', BASE[:8])
    print(out_clean, end='')
    print('--- with patch.diff applied')
    print(out_patched, end='')
    if out_clean == out_patched:
        print('=== NO DIFFERENCE OBSERVED')
        return 1
    print('=== behaviour differs')
    return 0


if __name__ == '__main__':
    sys.exit(main())
