#!/usr/bin/env python3
"""Witness: C16 - a line that already ends in whitespace is not followed by an additional space in the paragraph

Builds two source trees from the base commit of /repo (clean, and clean + patch.diff of this
directory), runs the same snippet against both and prints the two outputs. Exit status 0 means
the observable behaviour differs (and both runs completed)."""
import os
import subprocess
import sys
import tempfile

HERE = os.path.dirname(os.path.abspath(__file__))
BASE_COMMIT = 'd748213a6115712fa1a9efd59f7055db42a2823a'
REPO = os.environ.get('PAGEXML_REPO', '/repo')
PYTHON = os.environ.get('PAGEXML_PYTHON', '/venv/bin/python' if os.path.exists('/venv/bin/python') else sys.executable)

SNIPPET = r'''
import pagexml.model.physical_document_model as pdm
from pagexml.helper.pagexml_helper import make_text_region_text
def lines(*texts):
    region = pdm.PageXMLTextRegion(doc_id='r1', coords=pdm.Coords([(0, 0), (500, 500)]))
    out = [pdm.PageXMLTextLine(doc_id=f'l{i}', coords=pdm.Coords([(0, 50 * i), (500, 50 * i + 40)]), text=t) for i, t in enumerate(texts)]
    region.lines = out; region.set_as_parent(out)
    return out
def show(title, *texts):
    text, ranges = make_text_region_text(lines(*texts))
    print(title, repr(text), [(r['line_id'], r['start'], r['end']) for r in ranges])
    kept = lambda s: [c for c in s if not c.isspace() and c != '-']
    assert kept(text) == kept(''.join(t for t in texts if t)), 'characters lost'
    assert ranges[0]['start'] == 0 and ranges[-1]['end'] == len(text) and all(a['end'] == b['start'] for a, b in zip(ranges, ranges[1:]))
show('ends in a letter      :', 'one line', 'next one', 'last')
show('hyphenated            :', 'hyphen-', 'ated word', None, 'end-', 'Capital')
# whitespace at the end of a line: C16 fixes no amount of whitespace here (whitespace is not conserved by the statement)
show('ends in whitespace    :', 'trailing space ', 'tab\t', ' ', 'last')
'''


def make_tree(dest, patch=None):
    os.makedirs(dest)
    archive = subprocess.run(['git', '-C', REPO, 'archive', BASE_COMMIT], check=True,
                             stdout=subprocess.PIPE).stdout
    subprocess.run(['tar', '-x', '-C', dest], input=archive, check=True)
    if patch is not None:
        subprocess.run(['git', 'apply', patch], cwd=dest, check=True)


def run(tree):
    env = dict(os.environ, PYTHONPATH=tree, PYTHONDONTWRITEBYTECODE='1')
    proc = subprocess.run([PYTHON, '-c', SNIPPET], cwd=tree, env=env, capture_output=True, text=True)
    if proc.returncode != 0:
        print(proc.stdout)
        print(proc.stderr, file=sys.stderr)
        raise SystemExit(f'snippet failed in {tree}')
    return proc.stdout


def main():
    with tempfile.TemporaryDirectory() as tmp:
        clean, patched = os.path.join(tmp, 'clean'), os.path.join(tmp, 'patched')
        make_tree(clean)
        make_tree(patched, patch=os.path.join(HERE, 'patch.diff'))
        out_clean, out_patched = run(clean), run(patched)
    print('=== clean HEAD ===')
    print(out_clean.rstrip())
    print('=== with patch ===')
    print(out_patched.rstrip())
    if out_clean == out_patched:
        print('NO DIFFERENCE OBSERVED')
        return 1
    print('=== behaviour differs ===')
    return 0


if __name__ == '__main__':
    sys.exit(main())
