#!/usr/bin/env python3
"""Witness: C05 - sort_regions_in_reading_order puts regions the reading order does not list last instead of raising

Builds two source trees from the base commit of /repo (clean, and clean + patch.diff of this
directory), runs the same snippet against both and prints the two outputs. Exit status 0 means
the observable behaviour differs (and both runs completed)."""
import os
import subprocess
import sys
import tempfile

HERE = os.path.dirname(os.path.abspath(__file__))
BASE_COMMIT = 'd748213a6115712fa1a9efd59f7055db42a2823a'
REPO = os.environ.get('PAGEXML_REPO', '/repo')
PYTHON = os.environ.get('PAGEXML_PYTHON', '/venv/bin/python' if os.path.exists('/venv/bin/python') else sys.executable)

SNIPPET = r'''
from pagexml.parser import parse_pagexml_file
from pagexml.helper.pagexml_helper import sort_regions_in_reading_order
import pagexml.model.physical_document_model as pdm
def region(rid, top):
    return (f'<TextRegion id="{rid}"><Coords points="0,{top} 500,{top} 500,{top+90} 0,{top+90}"/>'
            f'<TextLine id="{rid}-l"><Coords points="0,{top} 500,{top} 500,{top+50} 0,{top+50}"/>'
            f'<Baseline points="0,{top+40} 500,{top+40}"/><TextEquiv><Unicode>{rid}</Unicode></TextEquiv></TextLine></TextRegion>')
refs = ''.join(f'<RegionRefIndexed index="{i}" regionRef="{r}"/>' for i, r in [(2, 'a'), (0, 'b'), (1, 'c'), (7, 'nowhere')])
xml = ('<?xml version="1.0" encoding="UTF-8"?><PcGts xmlns="http://schema.primaresearch.org/PAGE/gts/pagecontent/2013-07-15">'
       '<Metadata><Creator>w</Creator></Metadata><Page imageFilename="s.jpg" imageWidth="1000" imageHeight="800">'
       f'<ReadingOrder><OrderedGroup id="g">{refs}</OrderedGroup></ReadingOrder>'
       + region('a', 0) + region('b', 100) + region('c', 200) + '</Page></PcGts>')
scan = parse_pagexml_file('w.xml', pagexml_data=xml)
print('parsed (reading order covers every region):', [tr.id for tr in scan.text_regions], [l.id for l in scan.get_lines()],
      [tr.id for tr in sort_regions_in_reading_order(scan)])
# outside C05: a region is attached AFTER parsing, so the (complete) reading order of the file does not list it
late = pdm.PageXMLTextRegion(doc_id='late', coords=pdm.Coords([(0, 300), (500, 300), (500, 390), (0, 390)]))
scan.add_child(late)
try:
    print('after add_child(late):', [tr.id for tr in sort_regions_in_reading_order(scan)])
except Exception as err:
    print('after add_child(late):', type(err).__name__, err)
'''


def make_tree(dest, patch=None):
    os.makedirs(dest)
    archive = subprocess.run(['git', '-C', REPO, 'archive', BASE_COMMIT], check=True,
                             stdout=subprocess.PIPE).stdout
    subprocess.run(['tar', '-x', '-C', dest], input=archive, check=True)
    if patch is not None:
        subprocess.run(['git', 'apply', patch], cwd=dest, check=True)


def run(tree):
    env = dict(os.environ, PYTHONPATH=tree, PYTHONDONTWRITEBYTECODE='1')
    proc = subprocess.run([PYTHON, '-c', SNIPPET], cwd=tree, env=env, capture_output=True, text=True)
    if proc.returncode != 0:
        print(proc.stdout)
        print(proc.stderr, file=sys.stderr)
        raise SystemExit(f'snippet failed in {tree}')
    return proc.stdout


def main():
    with tempfile.TemporaryDirectory() as tmp:
        clean, patched = os.path.join(tmp, 'clean'), os.path.join(tmp, 'patched')
        make_tree(clean)
        make_tree(patched, patch=os.path.join(HERE, 'patch.diff'))
        out_clean, out_patched = run(clean), run(patched)
    print('=== clean HEAD ===')
    print(out_clean.rstrip())
    print('=== with patch ===')
    print(out_patched.rstrip())
    if out_clean == out_patched:
        print('NO DIFFERENCE OBSERVED')
        return 1
    print('=== behaviour differs ===')
    return 0


if __name__ == '__main__':
    sys.exit(main())
