#!/usr/bin/env python
"""Witness: shows that the patch in this directory changes observable behaviour w.r.t. the clean base commit.

Self-contained: exports the base commit of /repo into a temporary directory, applies patch.diff to a second
copy, runs the PROBE below against both trees (PYTHONPATH) and prints both outputs.
Exit status 0 iff the two outputs differ (= the behavioural difference is demonstrated)."""
import json
import os
import subprocess
import sys
import tempfile

HERE = os.path.dirname(os.path.abspath(__file__))
REPO = os.environ.get('PAGEXML_REPO', '/repo')
PYTHON = os.environ.get('PAGEXML_PYTHON', '/venv/bin/python')
BASE = json.load(open(os.path.join(HERE, 'meta.json')))['base_commit']

PROBE = r'''
from collections import Counter
from pagexml.analysis.text_stats import compute_keyness

def show(label, target, reference):
    keyness = compute_keyness(target, reference)
    swapped = compute_keyness(reference, target)
    target_total, reference_total = sum(target.values()), sum(reference.values())
    print(label)
    for token in sorted(set(target) | set(reference)):
        rel_t, rel_r = target[token] / target_total, reference[token] / reference_total
        where = [side for side in ('more', 'less') if token in keyness[side]]
        score = keyness[where[0]][token]
        where_swapped = [side for side in ('more', 'less') if token in swapped[side]]
        score_swapped = swapped[where_swapped[0]][token]
        print(f'   {token}: target {rel_t:.3f} reference {rel_r:.3f} -> in {where} score {score:.6f} '
              f'| swapped: in {where_swapped} score {score_swapped:.6f}')

show('same relative frequencies (reference = 2 x target):', Counter(a=1, b=3), Counter(a=2, b=6))
show('mixed:', Counter(a=5, b=5, c=10), Counter(a=1, b=5, c=14))
'''


def export_tree(target):
    os.makedirs(target)
    archive = subprocess.run(['git', '-C', REPO, 'archive', BASE, 'pagexml'], check=True, capture_output=True).stdout
    subprocess.run(['tar', '-x', '-C', target], input=archive, check=True)


def run_probe(tree, workdir):
    env = dict(os.environ, PYTHONPATH=tree, PYTHONDONTWRITEBYTECODE='1')
    proc = subprocess.run([PYTHON, '-c', PROBE], env=env, cwd=workdir, capture_output=True, text=True)
    return proc.stdout + (('[stderr] ' + proc.stderr.strip().splitlines()[-1] + '\n') if proc.returncode else '')


def main():
    with tempfile.TemporaryDirectory() as tmp:
        clean, patched = os.path.join(tmp, 'clean'), os.path.join(tmp, 'patched')
        export_tree(clean)
        export_tree(patched)
        subprocess.run(['git', 'apply', os.path.join(HERE, 'patch.diff')], cwd=patched, check=True)
        os.makedirs(os.path.join(tmp, 'w1'))
        os.makedirs(os.path.join(tmp, 'w2'))
        out_clean = run_probe(clean, os.path.join(tmp, 'w1'))
        out_patched = run_probe(patched, os.path.join(tmp, 'w2'))
    print('--- clean base commit', BASE[:8])
    print(out_clean, end='')
    print('--- with patch.diff applied')
    print(out_patched, end='')
    if out_clean == out_patched:
        print('=== NO DIFFERENCE OBSERVED')
        return 1
    print('=== behaviour differs')
    return 0


if __name__ == '__main__':
    sys.exit(main())
