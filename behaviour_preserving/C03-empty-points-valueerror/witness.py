#!/usr/bin/env python
"""Witness: shows that the patch in this directory changes observable behaviour w.r.t. the clean base commit.

Self-contained: exports the base commit of /repo into a temporary directory, applies patch.diff to a second
copy, runs the PROBE below against both trees (PYTHONPATH) and prints both outputs.
Exit status 0 iff the two outputs differ (= the behavioural difference is demonstrated)."""
import json
import os
import subprocess
import sys
import tempfile

HERE = os.path.dirname(os.path.abspath(__file__))
REPO = os.environ.get('PAGEXML_REPO', '/repo')
PYTHON = os.environ.get('PAGEXML_PYTHON', '/venv/bin/python')
BASE = json.load(open(os.path.join(HERE, 'meta.json')))['base_commit']

PROBE = r'''
from pagexml.model.coords import Coords, Baseline

def attempt(label, func):
    try:
        result = func()
        print(f'{label:34}-> accepted: {result.points} box={result.box}')
    except Exception as err:
        print(f'{label:34}-> {type(err).__name__}: {err}')

attempt('Coords([])', lambda: Coords([]))
attempt('Baseline([])', lambda: Baseline([]))
attempt("Coords('no points here')", lambda: Coords('no points here'))
attempt("Coords('')", lambda: Coords(''))
attempt('Coords([(1.5, 2)])', lambda: Coords([(1.5, 2)]))
attempt("Coords(['1,2'])", lambda: Coords(['1,2']))
attempt('Coords([(3, 4), (1, 9)])', lambda: Coords([(3, 4), (1, 9)]))
attempt("Coords('3,4 1,9')", lambda: Coords('3,4 1,9'))
'''


def export_tree(target):
    os.makedirs(target)
    archive = subprocess.run(['git', '-C', REPO, 'archive', BASE, 'pagexml'], check=True, capture_output=True).stdout
    subprocess.run(['tar', '-x', '-C', target], input=archive, check=True)


def run_probe(tree, workdir):
    env = dict(os.environ, PYTHONPATH=tree, PYTHONDONTWRITEBYTECODE='1')
    proc = subprocess.run([PYTHON, '-c', PROBE], env=env, cwd=workdir, capture_output=True, text=True)
    return proc.stdout + (('[stderr] ' + proc.stderr.strip().splitlines()[-1] + '\n') if proc.returncode else '')


def main():
    with tempfile.TemporaryDirectory() as tmp:
        clean, patched = os.path.join(tmp, 'clean'), os.path.join(tmp, 'patched')
        export_tree(clean)
        export_tree(patched)
        subprocess.run(['git', 'apply', os.path.join(HERE, 'patch.diff')], cwd=patched, check=True)
        os.makedirs(os.path.join(tmp, 'w1'))
        os.makedirs(os.path.join(tmp, 'w2'))
        out_clean = run_probe(clean, os.path.join(tmp, 'w1'))
        out_patched = run_probe(patched, os.path.join(tmp, 'w2'))
    print('--- clean base commit', BASE[:8])
    print(out_clean, end='')
    print('--- with patch.diff applied')
    print(out_patched, end='')
    if out_clean == out_patched:
        print('=== NO DIFFERENCE OBSERVED')
        return 1
    print('=== behaviour differs')
    return 0


if __name__ == '__main__':
    sys.exit(main())
