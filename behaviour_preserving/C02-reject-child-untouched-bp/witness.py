#!/usr/bin/env python3
"""Witness: C02 - add_child with an unsupported child type no longer re-parents the rejected child

Builds two source trees from the base commit of /repo (clean, and clean + patch.diff of this
directory), runs the same snippet against both and prints the two outputs. Exit status 0 means
the observable behaviour differs (and both runs completed)."""
import os
import subprocess
import sys
import tempfile

HERE = os.path.dirname(os.path.abspath(__file__))
BASE_COMMIT = 'd748213a6115712fa1a9efd59f7055db42a2823a'
REPO = os.environ.get('PAGEXML_REPO', '/repo')
PYTHON = os.environ.get('PAGEXML_PYTHON', '/venv/bin/python' if os.path.exists('/venv/bin/python') else sys.executable)

SNIPPET = r'''
import pagexml.model.physical_document_model as pdm
line = pdm.PageXMLTextLine(doc_id='l1', coords=pdm.Coords([(0, 0), (10, 10)]), text='a b')
word = pdm.PageXMLWord(doc_id='w1', coords=pdm.Coords([(0, 0), (5, 10)]), text='a')
line.words.append(word); line.set_as_parent(line.words)
region = pdm.PageXMLTextRegion(doc_id='r1', coords=pdm.Coords([(0, 0), (10, 10)]))
page = pdm.PageXMLPage(doc_id='p1', coords=pdm.Coords([(0, 0), (10, 10)]))
for container in (region, page):
    try:
        container.add_child(word)     # a region / page cannot hold a Word: rejected in both versions
    except TypeError as err:
        print(container.id, 'TypeError:', err)
    print('  word.parent after the rejected call:', word.parent.id,
          {k: v for k, v in word.metadata.items() if 'parent' in k})
    word.set_parent(line)
'''


def make_tree(dest, patch=None):
    os.makedirs(dest)
    archive = subprocess.run(['git', '-C', REPO, 'archive', BASE_COMMIT], check=True,
                             stdout=subprocess.PIPE).stdout
    subprocess.run(['tar', '-x', '-C', dest], input=archive, check=True)
    if patch is not None:
        subprocess.run(['git', 'apply', patch], cwd=dest, check=True)


def run(tree):
    env = dict(os.environ, PYTHONPATH=tree, PYTHONDONTWRITEBYTECODE='1')
    proc = subprocess.run([PYTHON, '-c', SNIPPET], cwd=tree, env=env, capture_output=True, text=True)
    if proc.returncode != 0:
        print(proc.stdout)
        print(proc.stderr, file=sys.stderr)
        raise SystemExit(f'snippet failed in {tree}')
    return proc.stdout


def main():
    with tempfile.TemporaryDirectory() as tmp:
        clean, patched = os.path.join(tmp, 'clean'), os.path.join(tmp, 'patched')
        make_tree(clean)
        make_tree(patched, patch=os.path.join(HERE, 'patch.diff'))
        out_clean, out_patched = run(clean), run(patched)
    print('=== clean HEAD ===')
    print(out_clean.rstrip())
    print('=== with patch ===')
    print(out_patched.rstrip())
    if out_clean == out_patched:
        print('NO DIFFERENCE OBSERVED')
        return 1
    print('=== behaviour differs ===')
    return 0


if __name__ == '__main__':
    sys.exit(main())
