#!/usr/bin/env python
"""Witness: shows that the patch in this directory changes observable behaviour w.r.t. the clean base commit.

Self-contained: exports the base commit of /repo into a temporary directory, applies patch.diff to a second
copy, runs the PROBE below against both trees (PYTHONPATH) and prints both outputs.
Exit status 0 iff the two outputs differ (= the behavioural difference is demonstrated)."""
import json
import os
import subprocess
import sys
import tempfile

HERE = os.path.dirname(os.path.abspath(__file__))
REPO = os.environ.get('PAGEXML_REPO', '/repo')
PYTHON = os.environ.get('PAGEXML_PYTHON', '/venv/bin/python')
BASE = json.load(open(os.path.join(HERE, 'meta.json')))['base_commit']

PROBE = r'''
import pagexml.model.physical_document_model as pdm
from pagexml.parser import parse_pagexml_file

def box(x, y, w, h):
    return pdm.Coords([(x, y), (x + w, y), (x + w, y + h), (x, y + h)])

words = [pdm.PageXMLWord(doc_id='w1', coords=box(0, 0, 40, 20), text='a<b', conf=0.9),
         pdm.PageXMLWord(doc_id='w2', coords=box(50, 0, 40, 20), text='c')]
line = pdm.PageXMLTextLine(doc_id='l1', coords=box(0, 0, 100, 20), baseline=pdm.Baseline([(0, 15), (100, 15)]),
                           text='a<b & c', conf=0.75, words=words)
region = pdm.PageXMLTextRegion(doc_id='r1', coords=box(0, 0, 100, 20), lines=[line])
scan = pdm.PageXMLScan(doc_id='scan.jpg', coords=box(0, 0, 500, 500), text_regions=[region])
xml_string = scan.to_pagexml(tostring=True)
for element in scan.to_pagexml().iter():
    if element.tag.endswith('TextLine'):
        print('children of TextLine:', [child.tag.split('}')[1] for child in element])
back = parse_pagexml_file('exported.xml', pagexml_data=xml_string)
back_line = back.text_regions[0].lines[0]
print('parsed back: line', back_line.id, repr(back_line.text), back_line.conf, back_line.baseline.points,
      '| words', [(w.id, w.text, w.conf) for w in back_line.words])
'''


def export_tree(target):
    os.makedirs(target)
    archive = subprocess.run(['git', '-C', REPO, 'archive', BASE, 'pagexml'], check=True, capture_output=True).stdout
    subprocess.run(['tar', '-x', '-C', target], input=archive, check=True)


def run_probe(tree, workdir):
    env = dict(os.environ, PYTHONPATH=tree, PYTHONDONTWRITEBYTECODE='1')
    proc = subprocess.run([PYTHON, '-c', PROBE], env=env, cwd=workdir, capture_output=True, text=True)
    return proc.stdout + (('[stderr] ' + proc.stderr.strip().splitlines()[-1] + '\n') if proc.returncode else '')


def main():
    with tempfile.TemporaryDirectory() as tmp:
        clean, patched = os.path.join(tmp, 'clean'), os.path.join(tmp, 'patched')
        export_tree(clean)
        export_tree(patched)
        subprocess.run(['git', 'apply', os.path.join(HERE, 'patch.diff')], cwd=patched, check=True)
        os.makedirs(os.path.join(tmp, 'w1'))
        os.makedirs(os.path.join(tmp, 'w2'))
        out_clean = run_probe(clean, os.path.join(tmp, 'w1'))
        out_patched = run_probe(patched, os.path.join(tmp, 'w2'))
    print('--- clean base commit', BASE[:8])
    print(out_clean, end='')
    print('--- with patch.diff applied')
    print(out_patched, end='')
    if out_clean == out_patched:
        print('=== NO DIFFERENCE OBSERVED')
        return 1
    print('=== behaviour differs')
    return 0


if __name__ == '__main__':
    sys.exit(main())
