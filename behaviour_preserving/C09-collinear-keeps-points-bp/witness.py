#!/usr/bin/env python3
"""Witness: C09 - coordinates derived from 3+ distinct collinear points keep every distinct point on the segment, not only its two ends

Builds two source trees from the base commit of /repo (clean, and clean + patch.diff of this
directory), runs the same snippet against both and prints the two outputs. Exit status 0 means
the observable behaviour differs (and both runs completed)."""
import os
import subprocess
import sys
import tempfile

HERE = os.path.dirname(os.path.abspath(__file__))
BASE_COMMIT = 'd748213a6115712fa1a9efd59f7055db42a2823a'
REPO = os.environ.get('PAGEXML_REPO', '/repo')
PYTHON = os.environ.get('PAGEXML_PYTHON', '/venv/bin/python' if os.path.exists('/venv/bin/python') else sys.executable)

SNIPPET = r'''
from pagexml.model.coords import Coords, parse_derived_coords
import pagexml.model.physical_document_model as pdm
def derive(*point_lists):
    docs = [pdm.PageXMLTextLine(doc_id=f'l{i}', coords=Coords(points)) for i, points in enumerate(point_lists)]
    derived = parse_derived_coords(docs)
    region = pdm.PageXMLTextRegion(doc_id='r', coords=derived)
    return derived.points, derived.box, region.area
print('points spanning a plane :', derive([(0, 0), (10, 0), (5, 5)], [(10, 10), (0, 10), (5, 5)]))
print('two distinct points     :', derive([(3, 3), (1, 1)], [(3, 3)]))
print('one point               :', derive([(2, 2)], [(2, 2)]))
# outside the quantifier of C09: three or more distinct points that all lie on one straight line
print('collinear, sloped       :', derive([(4, 4), (0, 0)], [(2, 2), (6, 6), (2, 2)]))
print('collinear, vertical     :', derive([(5, 30), (5, 10)], [(5, 20)]))
'''


def make_tree(dest, patch=None):
    os.makedirs(dest)
    archive = subprocess.run(['git', '-C', REPO, 'archive', BASE_COMMIT], check=True,
                             stdout=subprocess.PIPE).stdout
    subprocess.run(['tar', '-x', '-C', dest], input=archive, check=True)
    if patch is not None:
        subprocess.run(['git', 'apply', patch], cwd=dest, check=True)


def run(tree):
    env = dict(os.environ, PYTHONPATH=tree, PYTHONDONTWRITEBYTECODE='1')
    proc = subprocess.run([PYTHON, '-c', SNIPPET], cwd=tree, env=env, capture_output=True, text=True)
    if proc.returncode != 0:
        print(proc.stdout)
        print(proc.stderr, file=sys.stderr)
        raise SystemExit(f'snippet failed in {tree}')
    return proc.stdout


def main():
    with tempfile.TemporaryDirectory() as tmp:
        clean, patched = os.path.join(tmp, 'clean'), os.path.join(tmp, 'patched')
        make_tree(clean)
        make_tree(patched, patch=os.path.join(HERE, 'patch.diff'))
        out_clean, out_patched = run(clean), run(patched)
    print('=== clean HEAD ===')
    print(out_clean.rstrip())
    print('=== with patch ===')
    print(out_patched.rstrip())
    if out_clean == out_patched:
        print('NO DIFFERENCE OBSERVED')
        return 1
    print('=== behaviour differs ===')
    return 0


if __name__ == '__main__':
    sys.exit(main())
