#!/usr/bin/env python
"""Witness: shows that the patch in this directory changes observable behaviour w.r.t. the clean base commit.

Self-contained: exports the base commit of /repo into a temporary directory, applies patch.diff to a second
copy, runs the PROBE below against both trees (PYTHONPATH) and prints both outputs.
Exit status 0 iff the two outputs differ (= the behavioural difference is demonstrated)."""
import json
import os
import subprocess
import sys
import tempfile

HERE = os.path.dirname(os.path.abspath(__file__))
REPO = os.environ.get('PAGEXML_REPO', '/repo')
PYTHON = os.environ.get('PAGEXML_PYTHON', '/venv/bin/python')
BASE = json.load(open(os.path.join(HERE, 'meta.json')))['base_commit']

PROBE = r'''
import pagexml.model.physical_document_model as pdm
from pagexml.model.coords import Coords, parse_derived_coords

line1 = pdm.PageXMLTextLine(doc_id='l1', coords=Coords([(10, 40), (60, 20), (110, 40), (60, 45)]), text='a')
line2 = pdm.PageXMLTextLine(doc_id='l2', coords=Coords([(0, 100), (50, 90), (120, 100), (120, 130), (0, 130), (50, 110)]),
                            text='b')
hull = parse_derived_coords([line1, line2])
print('derived points :', hull.points)
print('derived box    :', hull.box)
print('same vertex set as input hull vertices:', sorted(hull.points))
region = pdm.PageXMLTextRegion(doc_id='r', coords=Coords([(0, 0), (1, 0), (1, 1)]))
region.add_child(line1)
region.add_child(line2)
print('region.coords after add_child:', region.coords.points, 'area:', region.area)
print('area of reordered points     :', pdm.PageXMLTextRegion(coords=Coords(hull.points[::-1])).area)
'''


def export_tree(target):
    os.makedirs(target)
    archive = subprocess.run(['git', '-C', REPO, 'archive', BASE, 'pagexml'], check=True, capture_output=True).stdout
    subprocess.run(['tar', '-x', '-C', target], input=archive, check=True)


def run_probe(tree, workdir):
    env = dict(os.environ, PYTHONPATH=tree, PYTHONDONTWRITEBYTECODE='1')
    proc = subprocess.run([PYTHON, '-c', PROBE], env=env, cwd=workdir, capture_output=True, text=True)
    return proc.stdout + (('[stderr] ' + proc.stderr.strip().splitlines()[-1] + '\n') if proc.returncode else '')


def main():
    with tempfile.TemporaryDirectory() as tmp:
        clean, patched = os.path.join(tmp, 'clean'), os.path.join(tmp, 'patched')
        export_tree(clean)
        export_tree(patched)
        subprocess.run(['git', 'apply', os.path.join(HERE, 'patch.diff')], cwd=patched, check=True)
        os.makedirs(os.path.join(tmp, 'w1'))
        os.makedirs(os.path.join(tmp, 'w2'))
        out_clean = run_probe(clean, os.path.join(tmp, 'w1'))
        out_patched = run_probe(patched, os.path.join(tmp, 'w2'))
    print('--- clean base commit', BASE[:8])
    print(out_clean, end='')
    print('--- with patch.diff applied')
    print(out_patched, end='')
    if out_clean == out_patched:
        print('=== NO DIFFERENCE OBSERVED')
        return 1
    print('=== behaviour differs')
    return 0


if __name__ == '__main__':
    sys.exit(main())
