#!/usr/bin/env python3
"""Witness: C07 - the Metadata element of an exported document also carries the Comments of the source

Builds two source trees from the base commit of /repo (clean, and clean + patch.diff of this
directory), runs the same snippet against both and prints the two outputs. Exit status 0 means
the observable behaviour differs (and both runs completed)."""
import os
import subprocess
import sys
import tempfile

HERE = os.path.dirname(os.path.abspath(__file__))
BASE_COMMIT = 'd748213a6115712fa1a9efd59f7055db42a2823a'
REPO = os.environ.get('PAGEXML_REPO', '/repo')
PYTHON = os.environ.get('PAGEXML_PYTHON', '/venv/bin/python' if os.path.exists('/venv/bin/python') else sys.executable)

SNIPPET = r'''
from pagexml.parser import parse_pagexml_file
xml = """<?xml version="1.0" encoding="UTF-8"?>
<PcGts xmlns="http://schema.primaresearch.org/PAGE/gts/pagecontent/2013-07-15">
  <Metadata><Creator>w</Creator><Created>2020-01-02T03:04:05</Created><LastChange>2020-01-02T03:04:05</LastChange>
    <Comments>second pass &amp; checked</Comments></Metadata>
  <Page imageFilename="scan.jpg" imageWidth="1000" imageHeight="800">
    <TextRegion id="r1"><Coords points="0,0 500,0 500,100 0,100"/>
      <TextLine id="l1"><Coords points="0,0 500,0 500,50 0,50"/><Baseline points="0,40 500,40"/>
        <TextEquiv conf="0.8"><Unicode>some text</Unicode></TextEquiv>
      </TextLine>
    </TextRegion>
  </Page>
</PcGts>"""
scan = parse_pagexml_file('w.xml', pagexml_data=xml)
tree = scan.to_pagexml()
print('children of PcGts   :', [el.tag.split('}')[1] for el in tree])
print('children of Metadata:', [(el.tag.split('}')[1], el.text) for el in tree[0]])
back = parse_pagexml_file('w.xml', pagexml_data=scan.to_pagexml(tostring=True))
print('parsed back         :', back.id, back.coords.box, [(tr.id, [(l.id, l.text, l.conf, l.coords.points, l.baseline.points) for l in tr.lines]) for tr in back.text_regions])
print('metadata parsed back:', {k: v for k, v in back.metadata.items() if k[0].isupper()})
'''


def make_tree(dest, patch=None):
    os.makedirs(dest)
    archive = subprocess.run(['git', '-C', REPO, 'archive', BASE_COMMIT], check=True,
                             stdout=subprocess.PIPE).stdout
    subprocess.run(['tar', '-x', '-C', dest], input=archive, check=True)
    if patch is not None:
        subprocess.run(['git', 'apply', patch], cwd=dest, check=True)


def run(tree):
    env = dict(os.environ, PYTHONPATH=tree, PYTHONDONTWRITEBYTECODE='1')
    proc = subprocess.run([PYTHON, '-c', SNIPPET], cwd=tree, env=env, capture_output=True, text=True)
    if proc.returncode != 0:
        print(proc.stdout)
        print(proc.stderr, file=sys.stderr)
        raise SystemExit(f'snippet failed in {tree}')
    return proc.stdout


def main():
    with tempfile.TemporaryDirectory() as tmp:
        clean, patched = os.path.join(tmp, 'clean'), os.path.join(tmp, 'patched')
        make_tree(clean)
        make_tree(patched, patch=os.path.join(HERE, 'patch.diff'))
        out_clean, out_patched = run(clean), run(patched)
    print('=== clean HEAD ===')
    print(out_clean.rstrip())
    print('=== with patch ===')
    print(out_patched.rstrip())
    if out_clean == out_patched:
        print('NO DIFFERENCE OBSERVED')
        return 1
    print('=== behaviour differs ===')
    return 0


if __name__ == '__main__':
    sys.exit(main())
