#!/usr/bin/env python3
"""Witness: C14 - the line reader also reads a line format file that is not gzip-compressed

Builds two source trees from the base commit of /repo (clean, and clean + patch.diff of this
directory), runs the same snippet against both and prints the two outputs. Exit status 0 means
the observable behaviour differs (and both runs completed)."""
import os
import subprocess
import sys
import tempfile

HERE = os.path.dirname(os.path.abspath(__file__))
BASE_COMMIT = 'd748213a6115712fa1a9efd59f7055db42a2823a'
REPO = os.environ.get('PAGEXML_REPO', '/repo')
PYTHON = os.environ.get('PAGEXML_PYTHON', '/venv/bin/python' if os.path.exists('/venv/bin/python') else sys.executable)

SNIPPET = r'''
import gzip, os, tempfile
import pagexml.model.physical_document_model as pdm
from pagexml.helper.text_helper import LineReader, make_line_format_file, read_pagexml_docs_from_line_file
def box(x, y, w, h):
    return pdm.Coords([(x, y), (x + w, y), (x + w, y + h), (x, y + h)])
def doc(doc_id):
    lines = [pdm.PageXMLTextLine(doc_id=f'{doc_id}-l{i}', coords=box(0, 50 * i, 400, 40), text=t) for i, t in enumerate(['first line', None, ' café '])]
    region = pdm.PageXMLTextRegion(doc_id=f'{doc_id}-r', coords=box(0, 0, 400, 140), lines=lines)
    return pdm.PageXMLScan(doc_id=doc_id, coords=box(0, 0, 1000, 800), text_regions=[region])
docs = [doc('d1'), doc('d2')]
tmp = tempfile.mkdtemp()
gz_file, plain_file = os.path.join(tmp, 'lines.tsv.gz'), os.path.join(tmp, 'lines.tsv')
make_line_format_file(docs, gz_file, add_bounding_box=True)
from_docs = [dict(rec, text=rec['text'] or '') for rec in LineReader(pagexml_docs=docs, add_bounding_box=True)]
from_gz = list(LineReader(pagexml_line_files=gz_file, add_bounding_box=True))
print('gzip line file: records as from the documents:', from_gz == from_docs,
      '| rebuilt', [(d.id, [tr.id for tr in d.text_regions], d.stats['lines']) for d in read_pagexml_docs_from_line_file(gz_file)])
# outside C14: the same line file, decompressed by hand
with gzip.open(gz_file, 'rb') as fh, open(plain_file, 'wb') as out:
    out.write(fh.read())
try:
    print('decompressed line file: records as from the documents:', list(LineReader(pagexml_line_files=plain_file, add_bounding_box=True)) == from_docs)
except Exception as err:
    print('decompressed line file:', type(err).__name__, str(err).replace(tmp, '<tmp>'))
'''


def make_tree(dest, patch=None):
    os.makedirs(dest)
    archive = subprocess.run(['git', '-C', REPO, 'archive', BASE_COMMIT], check=True,
                             stdout=subprocess.PIPE).stdout
    subprocess.run(['tar', '-x', '-C', dest], input=archive, check=True)
    if patch is not None:
        subprocess.run(['git', 'apply', patch], cwd=dest, check=True)


def run(tree):
    env = dict(os.environ, PYTHONPATH=tree, PYTHONDONTWRITEBYTECODE='1')
    proc = subprocess.run([PYTHON, '-c', SNIPPET], cwd=tree, env=env, capture_output=True, text=True)
    if proc.returncode != 0:
        print(proc.stdout)
        print(proc.stderr, file=sys.stderr)
        raise SystemExit(f'snippet failed in {tree}')
    return proc.stdout


def main():
    with tempfile.TemporaryDirectory() as tmp:
        clean, patched = os.path.join(tmp, 'clean'), os.path.join(tmp, 'patched')
        make_tree(clean)
        make_tree(patched, patch=os.path.join(HERE, 'patch.diff'))
        out_clean, out_patched = run(clean), run(patched)
    print('=== clean HEAD ===')
    print(out_clean.rstrip())
    print('=== with patch ===')
    print(out_patched.rstrip())
    if out_clean == out_patched:
        print('NO DIFFERENCE OBSERVED')
        return 1
    print('=== behaviour differs ===')
    return 0


if __name__ == '__main__':
    sys.exit(main())
