#!/usr/bin/env python3
"""Witness: C20 - get_doc_stats numbers the documents from its doc_num argument (which was ignored)

Builds two source trees from the base commit of /repo (clean, and clean + patch.diff of this
directory), runs the same snippet against both and prints the two outputs. Exit status 0 means
the observable behaviour differs (and both runs completed)."""
import os
import subprocess
import sys
import tempfile

HERE = os.path.dirname(os.path.abspath(__file__))
BASE_COMMIT = 'd748213a6115712fa1a9efd59f7055db42a2823a'
REPO = os.environ.get('PAGEXML_REPO', '/repo')
PYTHON = os.environ.get('PAGEXML_PYTHON', '/venv/bin/python' if os.path.exists('/venv/bin/python') else sys.executable)

SNIPPET = r'''
import pagexml.model.physical_document_model as pdm
from pagexml.analysis.stats import get_doc_stats
def box(x, y, w, h):
    return pdm.Coords([(x, y), (x + w, y), (x + w, y + h), (x, y + h)])
def doc(doc_id, texts):
    lines = [pdm.PageXMLTextLine(doc_id=f'{doc_id}-l{i}', coords=box(0, 50 * i, 100 + 250 * i, 40), text=t) for i, t in enumerate(texts)]
    region = pdm.PageXMLTextRegion(doc_id=f'{doc_id}-r', coords=box(0, 0, 900, 50 * len(texts)), lines=lines)
    return pdm.PageXMLScan(doc_id=doc_id, coords=box(0, 0, 1000, 800), text_regions=[region])
docs = [doc('d1', ['one two three', None, 'Four 5']), doc('d2', ['', 'six']), doc('d3', [])]
together = get_doc_stats(docs)
one_by_one = [get_doc_stats(d) for d in docs]
same = {col: together[col] == [v for part in one_by_one for v in part[col]] for col in together}
print('columns that are not the concatenation of the per-document tables:', [c for c, ok in same.items() if not ok])
print('lines/words:', together['lines'], together['words'], 'width bins sum:', [sum(together[c][i] for c in together if c.startswith('line_width_range_')) for i in range(3)])
print('doc_num, default             :', together['doc_num'])
# the doc_num argument is not mentioned by C20 (the default is what the statement's calls use)
print('doc_num, docs passed with doc_num=11:', get_doc_stats(docs, doc_num=11)['doc_num'])
print('doc_num, one at a time with doc_num=i:', [get_doc_stats(d, doc_num=i + 1)['doc_num'] for i, d in enumerate(docs)])
'''


def make_tree(dest, patch=None):
    os.makedirs(dest)
    archive = subprocess.run(['git', '-C', REPO, 'archive', BASE_COMMIT], check=True,
                             stdout=subprocess.PIPE).stdout
    subprocess.run(['tar', '-x', '-C', dest], input=archive, check=True)
    if patch is not None:
        subprocess.run(['git', 'apply', patch], cwd=dest, check=True)


def run(tree):
    env = dict(os.environ, PYTHONPATH=tree, PYTHONDONTWRITEBYTECODE='1')
    proc = subprocess.run([PYTHON, '-c', SNIPPET], cwd=tree, env=env, capture_output=True, text=True)
    if proc.returncode != 0:
        print(proc.stdout)
        print(proc.stderr, file=sys.stderr)
        raise SystemExit(f'snippet failed in {tree}')
    return proc.stdout


def main():
    with tempfile.TemporaryDirectory() as tmp:
        clean, patched = os.path.join(tmp, 'clean'), os.path.join(tmp, 'patched')
        make_tree(clean)
        make_tree(patched, patch=os.path.join(HERE, 'patch.diff'))
        out_clean, out_patched = run(clean), run(patched)
    print('=== clean HEAD ===')
    print(out_clean.rstrip())
    print('=== with patch ===')
    print(out_patched.rstrip())
    if out_clean == out_patched:
        print('NO DIFFERENCE OBSERVED')
        return 1
    print('=== behaviour differs ===')
    return 0


if __name__ == '__main__':
    sys.exit(main())
