#!/usr/bin/env python3
"""Witness: C08 - the rows of a parsed table get the id '<table id>-row-<row index>' instead of the bare integer row index

Builds two source trees from the base commit of /repo (clean, and clean + patch.diff of this
directory), runs the same snippet against both and prints the two outputs. Exit status 0 means
the observable behaviour differs (and both runs completed)."""
import os
import subprocess
import sys
import tempfile

HERE = os.path.dirname(os.path.abspath(__file__))
BASE_COMMIT = 'd748213a6115712fa1a9efd59f7055db42a2823a'
REPO = os.environ.get('PAGEXML_REPO', '/repo')
PYTHON = os.environ.get('PAGEXML_PYTHON', '/venv/bin/python' if os.path.exists('/venv/bin/python') else sys.executable)

SNIPPET = r'''
import json
from pagexml.parser import parse_pagexml_file, parse_pagexml_from_json
def cell(r, c, text):
    x, y = c * 100, r * 50
    line = (f'<TextLine id="t-{r}-{c}-l"><Coords points="{x},{y} {x+90},{y} {x+90},{y+40} {x},{y+40}"/>'
            f'<TextEquiv><Unicode>{text}</Unicode></TextEquiv></TextLine>') if text else ''
    return f'<TableCell id="t-{r}-{c}" row="{r}" col="{c}"><Coords points="{x},{y} {x+90},{y} {x+90},{y+40} {x},{y+40}"/>{line}</TableCell>'
cells = cell(0, 0, 'a') + cell(0, 1, 'b') + cell(0, 2, 'c') + cell(1, 0, 'd') + cell(1, 2, 'f')
xml = ('<?xml version="1.0" encoding="UTF-8"?><PcGts xmlns="http://schema.primaresearch.org/PAGE/gts/pagecontent/2013-07-15">'
       '<Metadata><Creator>w</Creator></Metadata><Page imageFilename="s.jpg" imageWidth="1000" imageHeight="800">'
       f'<TableRegion id="t"><Coords points="0,0 300,0 300,100 0,100"/>{cells}</TableRegion></Page></PcGts>')
scan = parse_pagexml_file('w.xml', pagexml_data=xml)
table = scan.table_regions[0]
print('shape', table.shape, 'values', table.values, 'stats', table.stats)
print('[1][1] placeholder', table[1][1].type[-1], '| [1][2]', table[1][2].id, repr(table[1][2].value))
print('row ids            :', [row.id for row in table.rows])
print('metadata of cell t-1-0:', {k: v for k, v in table[1][0].metadata.items()})
back = parse_pagexml_from_json(json.dumps(scan.json))
print('JSON round trip    :', back.table_regions[0].shape, back.table_regions[0].values, [row.id for row in back.table_regions[0].rows],
      json.dumps(back.json) == json.dumps(scan.json))
'''


def make_tree(dest, patch=None):
    os.makedirs(dest)
    archive = subprocess.run(['git', '-C', REPO, 'archive', BASE_COMMIT], check=True,
                             stdout=subprocess.PIPE).stdout
    subprocess.run(['tar', '-x', '-C', dest], input=archive, check=True)
    if patch is not None:
        subprocess.run(['git', 'apply', patch], cwd=dest, check=True)


def run(tree):
    env = dict(os.environ, PYTHONPATH=tree, PYTHONDONTWRITEBYTECODE='1')
    proc = subprocess.run([PYTHON, '-c', SNIPPET], cwd=tree, env=env, capture_output=True, text=True)
    if proc.returncode != 0:
        print(proc.stdout)
        print(proc.stderr, file=sys.stderr)
        raise SystemExit(f'snippet failed in {tree}')
    return proc.stdout


def main():
    with tempfile.TemporaryDirectory() as tmp:
        clean, patched = os.path.join(tmp, 'clean'), os.path.join(tmp, 'patched')
        make_tree(clean)
        make_tree(patched, patch=os.path.join(HERE, 'patch.diff'))
        out_clean, out_patched = run(clean), run(patched)
    print('=== clean HEAD ===')
    print(out_clean.rstrip())
    print('=== with patch ===')
    print(out_patched.rstrip())
    if out_clean == out_patched:
        print('NO DIFFERENCE OBSERVED')
        return 1
    print('=== behaviour differs ===')
    return 0


if __name__ == '__main__':
    sys.exit(main())
