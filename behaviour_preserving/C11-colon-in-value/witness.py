#!/usr/bin/env python
"""Witness: shows that the patch in this directory changes observable behaviour w.r.t. the clean base commit.

Self-contained: exports the base commit of /repo into a temporary directory, applies patch.diff to a second
copy, runs the PROBE below against both trees (PYTHONPATH) and prints both outputs.
Exit status 0 iff the two outputs differ (= the behavioural difference is demonstrated)."""
import json
import os
import subprocess
import sys
import tempfile

HERE = os.path.dirname(os.path.abspath(__file__))
REPO = os.environ.get('PAGEXML_REPO', '/repo')
PYTHON = os.environ.get('PAGEXML_PYTHON', '/venv/bin/python')
BASE = json.load(open(os.path.join(HERE, 'meta.json')))['base_commit']

PROBE = r'''
from pagexml.parser import parse_custom_attributes, parse_pagexml_file
from pagexml.model.xml import make_custom_string

def attempt(label, custom):
    try:
        parsed = parse_custom_attributes(custom)
        again = parse_custom_attributes(make_custom_string(parsed))
        print(f'{label:18}-> {parsed} | stable after re-serialising: {parsed == again}')
    except Exception as err:
        print(f'{label:18}-> {type(err).__name__}: {err}')

attempt('in the quantifier', 'readingOrder {index:3;} structure {type:paragraph;} person {offset:2; length:5; note:J. de Wit}')
attempt('colon in value', 'link {offset:0; length:4; href:https://example.org/a;}')
attempt('time value', 'date {offset:3; length:5; when:12:30:05}')
NS = 'http://schema.primaresearch.org/PAGE/gts/pagecontent/2013-07-15'
xml = (f'<?xml version="1.0" encoding="UTF-8"?><PcGts xmlns="{NS}"><Metadata/>'
       f'<Page imageFilename="s.jpg" imageWidth="500" imageHeight="500">'
       f'<TextRegion id="r1" custom="structure {{type:marginalia;}} link {{href:https://example.org/a;}}">'
       f'<Coords points="0,0 10,0 10,10"/></TextRegion></Page></PcGts>')
try:
    region = parse_pagexml_file('f.xml', pagexml_data=xml).text_regions[0]
    print('region custom:', region.custom, '| has structure type:', region.has_type('marginalia'))
except Exception as err:
    print('parsing the document ->', type(err).__name__, err)
'''


def export_tree(target):
    os.makedirs(target)
    archive = subprocess.run(['git', '-C', REPO, 'archive', BASE, 'pagexml'], check=True, capture_output=True).stdout
    subprocess.run(['tar', '-x', '-C', target], input=archive, check=True)


def run_probe(tree, workdir):
    env = dict(os.environ, PYTHONPATH=tree, PYTHONDONTWRITEBYTECODE='1')
    proc = subprocess.run([PYTHON, '-c', PROBE], env=env, cwd=workdir, capture_output=True, text=True)
    return proc.stdout + (('[stderr] ' + proc.stderr.strip().splitlines()[-1] + '\n') if proc.returncode else '')


def main():
    with tempfile.TemporaryDirectory() as tmp:
        clean, patched = os.path.join(tmp, 'clean'), os.path.join(tmp, 'patched')
        export_tree(clean)
        export_tree(patched)
        subprocess.run(['git', 'apply', os.path.join(HERE, 'patch.diff')], cwd=patched, check=True)
        os.makedirs(os.path.join(tmp, 'w1'))
        os.makedirs(os.path.join(tmp, 'w2'))
        out_clean = run_probe(clean, os.path.join(tmp, 'w1'))
        out_patched = run_probe(patched, os.path.join(tmp, 'w2'))
    print('--- clean base commit', BASE[:8])
    print(out_clean, end='')
    print('--- with patch.diff applied')
    print(out_patched, end='')
    if out_clean == out_patched:
        print('=== NO DIFFERENCE OBSERVED')
        return 1
    print('=== behaviour differs')
    return 0


if __name__ == '__main__':
    sys.exit(main())
