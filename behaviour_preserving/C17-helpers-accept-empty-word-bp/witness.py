#!/usr/bin/env python3
"""Witness: C17 - remove_hyphen and remove_word_break_chars return an empty word unchanged instead of raising IndexError

Builds two source trees from the base commit of /repo (clean, and clean + patch.diff of this
directory), runs the same snippet against both and prints the two outputs. Exit status 0 means
the observable behaviour differs (and both runs completed)."""
import os
import subprocess
import sys
import tempfile

HERE = os.path.dirname(os.path.abspath(__file__))
BASE_COMMIT = 'd748213a6115712fa1a9efd59f7055db42a2823a'
REPO = os.environ.get('PAGEXML_REPO', '/repo')
PYTHON = os.environ.get('PAGEXML_PYTHON', '/venv/bin/python' if os.path.exists('/venv/bin/python') else sys.executable)

SNIPPET = r'''
from pagexml.helper.text_helper import get_line_words, remove_hyphen, remove_word_break_chars
from pagexml.analysis.text_stats import determine_word_break
print('words:', get_line_words('the hyphen- ated--', '-'), get_line_words('', '-'), get_line_words('  ', '-'))
print('merge:', determine_word_break(['ated', 'word'], ['the', 'hyphen-'], None, '-'), determine_word_break(['b'], ['a'], None, '-'))
print('helpers on words:', remove_hyphen('geval-'), remove_hyphen('a--'), remove_hyphen('x'), remove_word_break_chars('geval-', 'len'), remove_word_break_chars('a=', ':b', '-=:'))
# the splitter never returns an empty token, so an empty word is outside what C17 says about the helpers
for title, call in (("remove_hyphen('')", lambda: remove_hyphen('')),
                    ("remove_word_break_chars('', 'len')", lambda: remove_word_break_chars('', 'len')),
                    ("remove_word_break_chars('geval-', '')", lambda: remove_word_break_chars('geval-', ''))):
    try:
        print(title, '->', repr(call()))
    except Exception as err:
        print(title, '->', type(err).__name__, err)
'''


def make_tree(dest, patch=None):
    os.makedirs(dest)
    archive = subprocess.run(['git', '-C', REPO, 'archive', BASE_COMMIT], check=True,
                             stdout=subprocess.PIPE).stdout
    subprocess.run(['tar', '-x', '-C', dest], input=archive, check=True)
    if patch is not None:
        subprocess.run(['git', 'apply', patch], cwd=dest, check=True)


def run(tree):
    env = dict(os.environ, PYTHONPATH=tree, PYTHONDONTWRITEBYTECODE='1')
    proc = subprocess.run([PYTHON, '-c', SNIPPET], cwd=tree, env=env, capture_output=True, text=True)
    if proc.returncode != 0:
        print(proc.stdout)
        print(proc.stderr, file=sys.stderr)
        raise SystemExit(f'snippet failed in {tree}')
    return proc.stdout


def main():
    with tempfile.TemporaryDirectory() as tmp:
        clean, patched = os.path.join(tmp, 'clean'), os.path.join(tmp, 'patched')
        make_tree(clean)
        make_tree(patched, patch=os.path.join(HERE, 'patch.diff'))
        out_clean, out_patched = run(clean), run(patched)
    print('=== clean HEAD ===')
    print(out_clean.rstrip())
    print('=== with patch ===')
    print(out_patched.rstrip())
    if out_clean == out_patched:
        print('NO DIFFERENCE OBSERVED')
        return 1
    print('=== behaviour differs ===')
    return 0


if __name__ == '__main__':
    sys.exit(main())
