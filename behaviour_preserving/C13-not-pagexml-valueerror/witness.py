#!/usr/bin/env python
"""Witness: shows that the patch in this directory changes observable behaviour w.r.t. the clean base commit.

Self-contained: exports the base commit of /repo into a temporary directory, applies patch.diff to a second
copy, runs the PROBE below against both trees (PYTHONPATH) and prints both outputs.
Exit status 0 iff the two outputs differ (= the behavioural difference is demonstrated)."""
import json
import os
import subprocess
import sys
import tempfile

HERE = os.path.dirname(os.path.abspath(__file__))
REPO = os.environ.get('PAGEXML_REPO', '/repo')
PYTHON = os.environ.get('PAGEXML_PYTHON', '/venv/bin/python')
BASE = json.load(open(os.path.join(HERE, 'meta.json')))['base_commit']

PROBE = r'''
import contextlib, io, zipfile
from pagexml.parser import parse_pagexml_files, parse_pagexml_files_from_archive
NS = 'http://schema.primaresearch.org/PAGE/gts/pagecontent/2013-07-15'

def page(name):
    return (f'<?xml version="1.0" encoding="UTF-8"?><PcGts xmlns="{NS}"><Metadata/>'
            f'<Page imageFilename="{name}.jpg" imageWidth="500" imageHeight="500">'
            f'<TextRegion id="r1"><Coords points="0,0 10,0 10,10"/></TextRegion></Page></PcGts>')

members = [('a.xml', page('a')), ('tei.xml', '<TEI><text>not PageXML</text></TEI>'), ('b.xml', page('b'))]
for name, content in members:
    with open(name, 'w') as fh:
        fh.write(content)
with zipfile.ZipFile('batch.zip', 'w') as zh:
    for name, content in members:
        zh.writestr(name, content)

def run(label, make_iterator):
    ids, error = [], None
    with contextlib.redirect_stdout(io.StringIO()):
        try:
            for scan in make_iterator():
                ids.append(scan.id)
        except Exception as err:
            error = f'{type(err).__name__}: {err}'
    print(f'{label:34} yielded={ids} escaped={error}')

files = [name for name, _ in members]
run('files, ignore_errors=True', lambda: parse_pagexml_files(files, ignore_errors=True))
run('files, ignore_errors=False', lambda: parse_pagexml_files(files, ignore_errors=False))
run('archive, ignore_errors=True', lambda: parse_pagexml_files_from_archive('batch.zip', ignore_errors=True))
run('archive, ignore_errors=False', lambda: parse_pagexml_files_from_archive('batch.zip', ignore_errors=False))
'''


def export_tree(target):
    os.makedirs(target)
    archive = subprocess.run(['git', '-C', REPO, 'archive', BASE, 'pagexml'], check=True, capture_output=True).stdout
    subprocess.run(['tar', '-x', '-C', target], input=archive, check=True)


def run_probe(tree, workdir):
    env = dict(os.environ, PYTHONPATH=tree, PYTHONDONTWRITEBYTECODE='1')
    proc = subprocess.run([PYTHON, '-c', PROBE], env=env, cwd=workdir, capture_output=True, text=True)
    return proc.stdout + (('[stderr] ' + proc.stderr.strip().splitlines()[-1] + '\n') if proc.returncode else '')


def main():
    with tempfile.TemporaryDirectory() as tmp:
        clean, patched = os.path.join(tmp, 'clean'), os.path.join(tmp, 'patched')
        export_tree(clean)
        export_tree(patched)
        subprocess.run(['git', 'apply', os.path.join(HERE, 'patch.diff')], cwd=patched, check=True)
        os.makedirs(os.path.join(tmp, 'w1'))
        os.makedirs(os.path.join(tmp, 'w2'))
        out_clean = run_probe(clean, os.path.join(tmp, 'w1'))
        out_patched = run_probe(patched, os.path.join(tmp, 'w2'))
    print('--- clean base commit', BASE[:8])
    print(out_clean, end='')
    print('--- with patch.diff applied')
    print(out_patched, end='')
    if out_clean == out_patched:
        print('=== NO DIFFERENCE OBSERVED')
        return 1
    print('=== behaviour differs')
    return 0


if __name__ == '__main__':
    sys.exit(main())
