#!/usr/bin/env python3
"""Witness: C19 - interpolated baseline points take the nearest y (rounded) instead of the truncated y

Builds two source trees from the base commit of /repo (clean, and clean + patch.diff of this
directory), runs the same snippet against both and prints the two outputs. Exit status 0 means
the observable behaviour differs (and both runs completed)."""
import os
import subprocess
import sys
import tempfile

HERE = os.path.dirname(os.path.abspath(__file__))
BASE_COMMIT = 'd748213a6115712fa1a9efd59f7055db42a2823a'
REPO = os.environ.get('PAGEXML_REPO', '/repo')
PYTHON = os.environ.get('PAGEXML_PYTHON', '/venv/bin/python' if os.path.exists('/venv/bin/python') else sys.executable)

SNIPPET = r'''
import pagexml.model.physical_document_model as pdm
from pagexml.analysis.layout_stats import (interpolate_baseline_points, compute_baseline_distances, get_text_heights,
                                            get_textregion_avg_line_distance)
def line(lid, x, y, w, slope=0, shift=0):
    base = [(x, y + 30 + shift), (x + w // 2, y + 30 + slope // 2 + shift), (x + w, y + 30 + slope + shift)]
    return pdm.PageXMLTextLine(doc_id=lid, coords=pdm.Coords([(x, y + shift), (x + w, y + shift), (x + w, y + 40 + slope + shift), (x, y + 40 + shift)]),
                               baseline=pdm.Baseline(base), text='x' * 20)
sloped = line('s', 3, 100, 394, slope=7)
print('baseline        :', sloped.baseline.points)
for step in (50, 10):
    points = interpolate_baseline_points(sloped.baseline.points, step=step)
    print(f'interpolated, step {step}:', points)
    assert all(x % step == 0 and 3 <= x <= 397 and 130 <= y <= 137 for x, y in points.items())
for d in (0, 13):
    print(f'distances to copy shifted by {d}:', compute_baseline_distances(sloped, line('t', 3, 100, 394, slope=7, shift=d)).tolist())
stack = [line(f'l{i}', 0, 100 + 60 * i, 400) for i in range(4)]
region = pdm.PageXMLTextRegion(doc_id='r', coords=pdm.Coords([(0, 100), (400, 100), (400, 400), (0, 400)]), lines=stack)
print('regular stack: leading', get_textregion_avg_line_distance(region), get_textregion_avg_line_distance(region, 'micro'),
      'text height', get_text_heights(stack[0]).tolist())
'''


def make_tree(dest, patch=None):
    os.makedirs(dest)
    archive = subprocess.run(['git', '-C', REPO, 'archive', BASE_COMMIT], check=True,
                             stdout=subprocess.PIPE).stdout
    subprocess.run(['tar', '-x', '-C', dest], input=archive, check=True)
    if patch is not None:
        subprocess.run(['git', 'apply', patch], cwd=dest, check=True)


def run(tree):
    env = dict(os.environ, PYTHONPATH=tree, PYTHONDONTWRITEBYTECODE='1')
    proc = subprocess.run([PYTHON, '-c', SNIPPET], cwd=tree, env=env, capture_output=True, text=True)
    if proc.returncode != 0:
        print(proc.stdout)
        print(proc.stderr, file=sys.stderr)
        raise SystemExit(f'snippet failed in {tree}')
    return proc.stdout


def main():
    with tempfile.TemporaryDirectory() as tmp:
        clean, patched = os.path.join(tmp, 'clean'), os.path.join(tmp, 'patched')
        make_tree(clean)
        make_tree(patched, patch=os.path.join(HERE, 'patch.diff'))
        out_clean, out_patched = run(clean), run(patched)
    print('=== clean HEAD ===')
    print(out_clean.rstrip())
    print('=== with patch ===')
    print(out_patched.rstrip())
    if out_clean == out_patched:
        print('NO DIFFERENCE OBSERVED')
        return 1
    print('=== behaviour differs ===')
    return 0


if __name__ == '__main__':
    sys.exit(main())
