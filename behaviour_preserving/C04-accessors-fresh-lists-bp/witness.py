#!/usr/bin/env python3
"""Witness: C04 - get_words of a line / get_lines of a table cell return fresh lists instead of the internal child list

Builds two source trees from the base commit of /repo (clean, and clean + patch.diff of this
directory), runs the same snippet against both and prints the two outputs. Exit status 0 means
the observable behaviour differs (and both runs completed)."""
import os
import subprocess
import sys
import tempfile

HERE = os.path.dirname(os.path.abspath(__file__))
BASE_COMMIT = 'd748213a6115712fa1a9efd59f7055db42a2823a'
REPO = os.environ.get('PAGEXML_REPO', '/repo')
PYTHON = os.environ.get('PAGEXML_PYTHON', '/venv/bin/python' if os.path.exists('/venv/bin/python') else sys.executable)

SNIPPET = r'''
import pagexml.model.physical_document_model as pdm
box = pdm.Coords([(0, 0), (100, 0), (100, 20), (0, 20)])
words = [pdm.PageXMLWord(doc_id=f'w{i}', coords=box, text=t) for i, t in enumerate(['a', 'b'])]
line = pdm.PageXMLTextLine(doc_id='l1', coords=box, text='a b', words=words)
cell = pdm.PageXMLTableCell(doc_id='c1', coords=box, row=0, col=0, lines=[line])
print('line.get_words() is line.words :', line.get_words() is line.words)
print('cell.get_lines() is cell.lines :', cell.get_lines() is cell.lines)
print('answers equal the child lists  :', line.get_words() == line.words, cell.get_lines() == cell.lines)
# a caller that empties the answers of the read accessors
line.get_words().clear()
cell.get_lines().clear()
print('after clearing the answers     :', 'line.words', [w.id for w in line.words], 'cell.lines', [l.id for l in cell.lines],
      'stats', line.stats, cell.stats)
'''


def make_tree(dest, patch=None):
    os.makedirs(dest)
    archive = subprocess.run(['git', '-C', REPO, 'archive', BASE_COMMIT], check=True,
                             stdout=subprocess.PIPE).stdout
    subprocess.run(['tar', '-x', '-C', dest], input=archive, check=True)
    if patch is not None:
        subprocess.run(['git', 'apply', patch], cwd=dest, check=True)


def run(tree):
    env = dict(os.environ, PYTHONPATH=tree, PYTHONDONTWRITEBYTECODE='1')
    proc = subprocess.run([PYTHON, '-c', SNIPPET], cwd=tree, env=env, capture_output=True, text=True)
    if proc.returncode != 0:
        print(proc.stdout)
        print(proc.stderr, file=sys.stderr)
        raise SystemExit(f'snippet failed in {tree}')
    return proc.stdout


def main():
    with tempfile.TemporaryDirectory() as tmp:
        clean, patched = os.path.join(tmp, 'clean'), os.path.join(tmp, 'patched')
        make_tree(clean)
        make_tree(patched, patch=os.path.join(HERE, 'patch.diff'))
        out_clean, out_patched = run(clean), run(patched)
    print('=== clean HEAD ===')
    print(out_clean.rstrip())
    print('=== with patch ===')
    print(out_patched.rstrip())
    if out_clean == out_patched:
        print('NO DIFFERENCE OBSERVED')
        return 1
    print('=== behaviour differs ===')
    return 0


if __name__ == '__main__':
    sys.exit(main())
