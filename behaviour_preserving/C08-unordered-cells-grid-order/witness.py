#!/usr/bin/env python
"""Witness: shows that the patch in this directory changes observable behaviour w.r.t. the clean base commit.

Self-contained: exports the base commit of /repo into a temporary directory, applies patch.diff to a second
copy, runs the PROBE below against both trees (PYTHONPATH) and prints both outputs.
Exit status 0 iff the two outputs differ (= the behavioural difference is demonstrated)."""
import json
import os
import subprocess
import sys
import tempfile

HERE = os.path.dirname(os.path.abspath(__file__))
REPO = os.environ.get('PAGEXML_REPO', '/repo')
PYTHON = os.environ.get('PAGEXML_PYTHON', '/venv/bin/python')
BASE = json.load(open(os.path.join(HERE, 'meta.json')))['base_commit']

PROBE = r'''
from pagexml.parser import parse_pagexml_file
NS = 'http://schema.primaresearch.org/PAGE/gts/pagecontent/2013-07-15'

def make_xml(cell_order):
    cells = ''
    for row, col in cell_order:
        x, y = col * 100, row * 50
        points = f'{x},{y} {x + 90},{y} {x + 90},{y + 40} {x},{y + 40}'
        cells += (f'<TableCell id="c{row}{col}" row="{row}" col="{col}"><Coords points="{points}"/>'
                  f'<TextLine id="l{row}{col}"><Coords points="{points}"/>'
                  f'<TextEquiv><Unicode>t{row}{col}</Unicode></TextEquiv></TextLine></TableCell>')
    return (f'<?xml version="1.0" encoding="UTF-8"?><PcGts xmlns="{NS}"><Metadata/>'
            f'<Page imageFilename="s.jpg" imageWidth="500" imageHeight="500">'
            f'<TableRegion id="t1"><Coords points="0,0 300,0 300,100 0,100"/>{cells}</TableRegion></Page></PcGts>')

def show(label, cell_order):
    table = parse_pagexml_file('f.xml', pagexml_data=make_xml(cell_order)).table_regions[0]
    print(f'{label:36} shape={table.shape} rows={[row.id for row in table.rows]} values={table.values} '
          f'[1][0]={table[1][0].id} stats={table.stats}')

show('row-major (in the quantifier)', [(0, 0), (0, 1), (0, 2), (1, 0), (1, 2)])
show('column-major listing', [(0, 0), (1, 0), (0, 1), (0, 2), (1, 2)])
show('rows listed bottom-up, cols reversed', [(1, 2), (1, 0), (0, 2), (0, 1), (0, 0)])
'''


def export_tree(target):
    os.makedirs(target)
    archive = subprocess.run(['git', '-C', REPO, 'archive', BASE, 'pagexml'], check=True, capture_output=True).stdout
    subprocess.run(['tar', '-x', '-C', target], input=archive, check=True)


def run_probe(tree, workdir):
    env = dict(os.environ, PYTHONPATH=tree, PYTHONDONTWRITEBYTECODE='1')
    proc = subprocess.run([PYTHON, '-c', PROBE], env=env, cwd=workdir, capture_output=True, text=True)
    return proc.stdout + (('[stderr] ' + proc.stderr.strip().splitlines()[-1] + '\n') if proc.returncode else '')


def main():
    with tempfile.TemporaryDirectory() as tmp:
        clean, patched = os.path.join(tmp, 'clean'), os.path.join(tmp, 'patched')
        export_tree(clean)
        export_tree(patched)
        subprocess.run(['git', 'apply', os.path.join(HERE, 'patch.diff')], cwd=patched, check=True)
        os.makedirs(os.path.join(tmp, 'w1'))
        os.makedirs(os.path.join(tmp, 'w2'))
        out_clean = run_probe(clean, os.path.join(tmp, 'w1'))
        out_patched = run_probe(patched, os.path.join(tmp, 'w2'))
    print('--- clean base commit', BASE[:8])
    print(out_clean, end='')
    print('--- with patch.diff applied')
    print(out_patched, end='')
    if out_clean == out_patched:
        print('=== NO DIFFERENCE OBSERVED')
        return 1
    print('=== behaviour differs')
    return 0


if __name__ == '__main__':
    sys.exit(main())
